// Package grocksdb is a pure-Go in-memory model of exactly the API surface of
// github.com/linxGnu/grocksdb that 0chain/common's PNodeDB uses (DESIGN §3.3).
// Contract modelled: single writes and Write(batch) are atomic and applied in
// program order; iterators see a snapshot in byte-wise key order; Get of an absent
// key returns an empty slice. Stores are kept per directory name so that a
// "re-opened" DB sees what was durably written. A write log with a crash point
// (VerifCrashAfter) lets harnesses drop every write after the n-th.
package grocksdb

import (
	"bytes"
	"sort"
)

type CompressionType uint

const (
	NoCompression  = CompressionType(0)
	LZ4Compression = CompressionType(4)
)

type Cache struct{}

func NewLRUCache(capacity uint64) *Cache { return &Cache{} }

type SliceTransform struct{}

func NewFixedPrefixTransform(prefixLen int) *SliceTransform { return &SliceTransform{} }

type BlockBasedTableOptions struct{}

func NewDefaultBlockBasedTableOptions() *BlockBasedTableOptions { return &BlockBasedTableOptions{} }
func (o *BlockBasedTableOptions) SetBlockCache(c *Cache)        {}

type Options struct{}

func NewDefaultOptions() *Options                                         { return &Options{} }
func (o *Options) EnableStatistics()                                      {}
func (o *Options) IncreaseParallelism(n int)                              {}
func (o *Options) OptimizeForPointLookup(mb uint64)                       {}
func (o *Options) OptimizeUniversalStyleCompaction(b uint64)              {}
func (o *Options) SetAllowMmapReads(v bool)                               {}
func (o *Options) SetBlockBasedTableFactory(b *BlockBasedTableOptions)    {}
func (o *Options) SetCompression(c CompressionType)                       {}
func (o *Options) SetCreateIfMissing(v bool)                              {}
func (o *Options) SetCreateIfMissingColumnFamilies(v bool)                {}
func (o *Options) SetDbLogDir(d string)                                   {}
func (o *Options) SetDeleteObsoleteFilesPeriodMicros(v uint64)            {}
func (o *Options) SetKeepLogFileNum(n uint)                               {}
func (o *Options) SetMaxBackgroundJobs(n int)                             {}
func (o *Options) SetMaxWriteBufferNumber(n int)                          {}
func (o *Options) SetMinWriteBufferNumberToMerge(n int)                   {}
func (o *Options) SetPlainTableFactory(a uint32, b int, c float64, d uint) {}
func (o *Options) SetPrefixExtractor(s *SliceTransform)                   {}
func (o *Options) SetWriteBufferSize(n uint64)                            {}

type ReadOptions struct{}

func NewDefaultReadOptions() *ReadOptions   { return &ReadOptions{} }
func (o *ReadOptions) Destroy()             {}
func (o *ReadOptions) SetFillCache(v bool)  {}

type WriteOptions struct{}

func NewDefaultWriteOptions() *WriteOptions { return &WriteOptions{} }
func (o *WriteOptions) SetSync(v bool)      {}

type TransactionOptions struct{}

func NewDefaultTransactionOptions() *TransactionOptions { return &TransactionOptions{} }

type FlushOptions struct{}

func NewDefaultFlushOptions() *FlushOptions { return &FlushOptions{} }

type ColumnFamilyHandle struct{ idx int }

func (h *ColumnFamilyHandle) Destroy() {}

type Slice struct{ data []byte }

func (s *Slice) Data() []byte { return s.data }
func (s *Slice) Free()        {}

type kv struct {
	k, v []byte
}

// table is one column family: a slice kept sorted by key.
type table struct {
	ents []kv
}

func (t *table) find(k []byte) (int, bool) {
	i := sort.Search(len(t.ents), func(i int) bool { return bytes.Compare(t.ents[i].k, k) >= 0 })
	return i, i < len(t.ents) && bytes.Equal(t.ents[i].k, k)
}

func (t *table) put(k, v []byte) {
	k = append([]byte{}, k...)
	v = append([]byte{}, v...)
	i, ok := t.find(k)
	if ok {
		t.ents[i].v = v
		return
	}
	t.ents = append(t.ents, kv{})
	copy(t.ents[i+1:], t.ents[i:])
	t.ents[i] = kv{k, v}
}

func (t *table) del(k []byte) {
	i, ok := t.find(k)
	if ok {
		t.ents = append(t.ents[:i], t.ents[i+1:]...)
	}
}

// Store is the durable state behind a directory name.
type Store struct {
	cfs        [2]table
	Writes     int // number of atomic writes applied or dropped so far
	CrashAfter int // <0: never; otherwise writes with index >= CrashAfter are dropped
	Dropped    int
	Log        []string
}

var stores = map[string]*Store{}

// VerifStore returns (creating if needed) the durable store for dir.
func VerifStore(dir string) *Store {
	s := stores[dir]
	if s == nil {
		s = &Store{CrashAfter: -1}
		stores[dir] = s
	}
	return s
}

// VerifReset forgets all stores (new path).
func VerifReset() { stores = map[string]*Store{} }

// VerifCrashAfter makes the store drop every atomic write from the n-th on (n counted from now).
func (s *Store) VerifCrashAfter(n int) { s.CrashAfter = s.Writes + n }

// VerifNoCrash re-enables writes ("restart").
func (s *Store) VerifNoCrash() { s.CrashAfter = -1 }

// VerifKeys returns the keys of column family cf in order.
func (s *Store) VerifKeys(cf int) [][]byte {
	var r [][]byte
	for _, e := range s.cfs[cf].ents {
		r = append(r, e.k)
	}
	return r
}

// VerifGet reads a key of column family cf directly.
func (s *Store) VerifGet(cf int, k []byte) ([]byte, bool) {
	i, ok := s.cfs[cf].find(k)
	if !ok {
		return nil, false
	}
	return s.cfs[cf].ents[i].v, true
}

// VerifDelete removes a key directly (fault injection).
func (s *Store) VerifDelete(cf int, k []byte) { s.cfs[cf].del(k) }

func (s *Store) admit(what string) bool {
	idx := s.Writes
	s.Writes++
	if s.CrashAfter >= 0 && idx >= s.CrashAfter {
		s.Dropped++
		return false
	}
	s.Log = append(s.Log, what)
	return true
}

type DB struct {
	s *Store
}

func OpenDbColumnFamilies(opts *Options, name string, cfNames []string, cfOpts []*Options) (*DB, []*ColumnFamilyHandle, error) {
	db := &DB{s: VerifStore(name)}
	hs := make([]*ColumnFamilyHandle, len(cfNames))
	for i := range cfNames {
		hs[i] = &ColumnFamilyHandle{idx: i}
	}
	return db, hs, nil
}

func (db *DB) Get(ro *ReadOptions, key []byte) (*Slice, error) {
	i, ok := db.s.cfs[0].find(key)
	if !ok {
		return &Slice{}, nil
	}
	return &Slice{data: append([]byte{}, db.s.cfs[0].ents[i].v...)}, nil
}

func (db *DB) Put(wo *WriteOptions, key, value []byte) error {
	if db.s.admit("put") {
		db.s.cfs[0].put(key, value)
	}
	return nil
}

func (db *DB) PutCF(wo *WriteOptions, cf *ColumnFamilyHandle, key, value []byte) error {
	if db.s.admit("putcf") {
		db.s.cfs[cf.idx].put(key, value)
	}
	return nil
}

func (db *DB) Delete(wo *WriteOptions, key []byte) error {
	if db.s.admit("delete") {
		db.s.cfs[0].del(key)
	}
	return nil
}

type batchOp struct {
	cf   int
	del  bool
	k, v []byte
}

type WriteBatch struct{ ops []batchOp }

func NewWriteBatch() *WriteBatch { return &WriteBatch{} }
func (wb *WriteBatch) Put(key, value []byte) {
	wb.ops = append(wb.ops, batchOp{0, false, append([]byte{}, key...), append([]byte{}, value...)})
}
func (wb *WriteBatch) Delete(key []byte) {
	wb.ops = append(wb.ops, batchOp{0, true, append([]byte{}, key...), nil})
}
func (wb *WriteBatch) DeleteCF(cf *ColumnFamilyHandle, key []byte) {
	wb.ops = append(wb.ops, batchOp{cf.idx, true, append([]byte{}, key...), nil})
}
func (wb *WriteBatch) Destroy() {}

func (db *DB) Write(wo *WriteOptions, wb *WriteBatch) error {
	if !db.s.admit("batch") {
		return nil
	}
	for _, op := range wb.ops {
		if op.del {
			db.s.cfs[op.cf].del(op.k)
		} else {
			db.s.cfs[op.cf].put(op.k, op.v)
		}
	}
	return nil
}

func (db *DB) GetPropertyCF(name string, cf *ColumnFamilyHandle) string { return "" }
func (db *DB) Flush(fo *FlushOptions) error                             { return nil }
func (db *DB) Close()                                                   {}

type Iterator struct {
	snap []kv
	pos  int
}

func (db *DB) NewIterator(ro *ReadOptions) *Iterator {
	return &Iterator{snap: append([]kv{}, db.s.cfs[0].ents...), pos: -1}
}

func (db *DB) NewIteratorCF(ro *ReadOptions, cf *ColumnFamilyHandle) *Iterator {
	return &Iterator{snap: append([]kv{}, db.s.cfs[cf.idx].ents...), pos: -1}
}

func (it *Iterator) SeekToFirst() { it.pos = 0 }
func (it *Iterator) Valid() bool  { return it.pos >= 0 && it.pos < len(it.snap) }
func (it *Iterator) Next()        { it.pos++ }
func (it *Iterator) Key() *Slice  { return &Slice{data: it.snap[it.pos].k} }
func (it *Iterator) Value() *Slice {
	return &Slice{data: it.snap[it.pos].v}
}
func (it *Iterator) Close() {}
