package c04

import "context"

func nil2ctx() context.Context { return context.Background() }
