// Package c04: C04 — saved state is complete and survives crashes.
package c04

import (
	"bytes"

	"verifharness/mptlib"
	"verifharness/vp"
)

var Harnesses = map[string]func(){
	"H_Save": H_Save,
}

// H_Save: R rounds of (transactions, save); after every save every saved root reads
// completely from the persistent store alone; the last save is crashed at every point
// of its write stream and re-executed after "restart".
func H_Save() {
	seed := vp.Param("seed", 2)
	R := vp.Param("rounds", 2)
	ntx := vp.Param("ntx", 1)
	alpha := mptlib.Alphabet(vp.Param("alpha", 2))
	lmax := vp.Param("lmax", 4)
	rs := mptlib.NewRounds("C04", "c04", seed, alpha, lmax)
	if !rs.CheckSaved("C04.saved", 0) {
		return
	}
	for r := 1; r <= R; r++ {
		txns := rs.ChooseTxns("r", ntx)
		last := r == R
		b, ref, ok := rs.Execute(rs.Base+int64(r), txns)
		if !ok {
			return
		}
		if last {
			// crash point in the save's write stream (batches atomic): n writes survive
			writes := 1
			n := vp.Choose("crash", writes+1)
			if n < writes {
				rs.Store.VerifCrashAfter(n)
				if vp.NoPanic("C04.nopanic", func() { b.SaveChanges(nil2ctx(), rs.PNDB, false) }) {
					return
				}
				crashedRoot := mptlib.Cp(b.GetRoot())
				rs.Store.VerifNoCrash() // restart
				for j := 0; j < r; j++ {
					if !rs.CheckSaved("C04.after-crash", j) {
						return
					}
				}
				// re-execute and re-save the interrupted round
				b2, ref2, ok := rs.Execute(rs.Base+int64(r), txns)
				if !ok {
					return
				}
				if !rs.Save(b2, ref2) {
					return
				}
				vp.Assert("C04.reexecuted-same-root", bytes.Equal(b2.GetRoot(), crashedRoot))
				vp.Cover("C04.crashed")
			} else {
				if !rs.Save(b, ref) {
					return
				}
			}
		} else {
			if !rs.Save(b, ref) {
				return
			}
		}
		for j := 0; j <= r; j++ {
			if !rs.CheckSaved("C04.saved", j) {
				return
			}
		}
	}
	vp.Cover("C04.done")
}
