// Package c01: C01 — the state trie behaves as a map from paths to values.
package c01

import (
	"github.com/0chain/common/core/util"

	"verifharness/mptlib"
	"verifharness/vp"
)

var Harnesses = map[string]func(){
	"H_Map": H_Map,
}

// H_Map: store kind × seed × k symbolic operations; after every operation the
// returned error class, every lookup and the full iteration are compared with
// the reference map. Parameters: store, seed, k, alpha, lmax, vmax.
func H_Map() {
	store := vp.Param("store", 0)
	seed := vp.Param("seed", 0)
	k := vp.Param("k", 1)
	alpha := mptlib.Alphabet(vp.Param("alpha", 2))
	lmax := vp.Param("lmax", 4)
	vmax := vp.Param("vmax", 2)
	oversize := vp.Param("oversize", 9) // MPTMaxAllowableNodeSize is shrunk to 8 by overlay
	ops := vp.Param("ops", 15)          // bit mask of allowed operation kinds
	probeOn := vp.Param("probe", 1)
	var kinds []int
	for b := 0; b < 4; b++ {
		if ops&(1<<b) != 0 {
			kinds = append(kinds, b)
		}
	}

	version := vp.Int64("version")
	db := mptlib.NewStore(store, "c01")
	// an empty trie is opened with a nil root or with an empty, non-nil one (e.g. a decoded "")
	var root util.Key
	if vp.Param("emptyroot", 0) == 1 && vp.Choose("rootkind", 2) == 1 {
		root = util.Key{}
	}
	t := mptlib.NewTrie(db, version, root)
	ref := mptlib.NewRef()
	mptlib.ApplySeed(t, ref, seed)

	for i := 0; i < k; i++ {
		kind := kinds[vp.Choose("op", len(kinds))]
		p := mptlib.GenPath("p", alpha, lmax)
		rootBefore := mptlib.Cp(t.GetRoot())
		var err error
		switch kind {
		case 0: // insert / update
			v := mptlib.GenValue("v", vmax)
			if vp.NoPanic("C01.insert.nopanic", func() { _, err = t.Insert(util.Path(mptlib.Cp(p)), mptlib.Val(v)) }) {
				return
			}
			vp.Assert("C01.insert.noerr", err == nil)
			ref.Put(p, v)
		case 1, 2: // delete, or storing an empty value (= delete)
			was := ref.Has(p)
			var pan bool
			if kind == 1 {
				pan = vp.NoPanic("C01.delete.nopanic", func() { _, err = t.Delete(util.Path(mptlib.Cp(p))) })
			} else {
				pan = vp.NoPanic("C01.delete.nopanic", func() { _, err = t.Insert(util.Path(mptlib.Cp(p)), mptlib.Val(nil)) })
			}
			if pan {
				return
			}
			if was {
				vp.Assert("C01.delete.present-noerr", err == nil)
			} else {
				vp.Assert("C01.delete.absent-reports-not-present", err == util.ErrValueNotPresent)
				vp.Assert("C01.delete.absent-root-unchanged", mptlib.BytesEq(t.GetRoot(), rootBefore))
			}
			ref.Del(p)
		case 3: // over-size value is rejected without changing anything
			v := vp.Bytes("big", oversize)
			if vp.NoPanic("C01.oversize.nopanic", func() { _, err = t.Insert(util.Path(mptlib.Cp(p)), mptlib.Val(v)) }) {
				return
			}
			vp.Assert("C01.oversize.rejected", err != nil)
			vp.Assert("C01.oversize.root-unchanged", mptlib.BytesEq(t.GetRoot(), rootBefore))
			ref.Touch(p)
		}
		if vp.NoPanic("C01.read.nopanic", func() { mptlib.CheckContent("C01", t, ref) }) {
			return
		}
	}
	if probeOn == 1 {
		// one fresh probe path never written
		probe := mptlib.GenPath("probe", alpha, lmax)
		ref.Touch(probe)
		vp.NoPanic("C01.read.nopanic", func() { mptlib.CheckContent("C01", t, ref) })
	}
	vp.Cover("C01.done")
}
