// Package c15: C15 — decoders reject malformed bytes without crashing.
package c15

import (
	"bytes"

	"github.com/0chain/common/core/util"

	"verifharness/vp"
)

var Harnesses = map[string]func(){
	"H_CreateNode":     H_CreateNode,
	"H_CreateNodeLong": H_CreateNodeLong,
}

func decodeAndReencode(in []byte) {
	var n util.Node
	var err error
	if vp.NoPanic("C15.createnode.nopanic", func() { n, err = util.CreateNode(bytes.NewReader(in)) }) {
		return
	}
	vp.Observe("decode", err != nil)
	if err == nil && n != nil {
		// anything accepted re-encodes and hashes without panicking
		vp.NoPanic("C15.createnode.reencode-nopanic", func() {
			_ = n.Encode()
			_ = n.GetHashBytes()
			_ = n.GetNodeType()
		})
		vp.Cover("C15.accepted")
	} else {
		vp.Cover("C15.rejected")
	}
}

// H_CreateNode: every byte string of length n <= nmax, all bytes symbolic
// (tag byte optionally constrained to one node kind to go deeper).
func H_CreateNode() {
	nmin := vp.Param("nmin", 0)
	nmax := vp.Param("nmax", 25)
	tag := vp.Param("tag", -1)
	n := nmin + vp.Choose("n", nmax-nmin+1)
	in := vp.Bytes("in", n)
	if tag >= 0 && n > 0 {
		vp.Assume(in[0]&util.NodeTypesAll == byte(tag))
	}
	decodeAndReencode(in)
	vp.Cover("C15.createnode.done")
}

// H_CreateNodeLong: near-valid encodings that the byte bound cannot reach: a valid
// header and body shape with one field of inflated length (concrete hex digits,
// two positions symbolic), separators removed one at a time, tag byte symbolic.
func H_CreateNodeLong() {
	kind := vp.Choose("kind", 3)
	hdr := vp.Bytes("hdr", 16)
	tagb := vp.Byte("tag")
	in := append([]byte{tagb}, hdr...)
	hexd := []byte("0123456789abcdef")
	field := func(n int) []byte {
		f := make([]byte, n)
		for i := range f {
			f[i] = hexd[(i*7+3)%16]
		}
		if n > 1 {
			f[0] = vp.Byte("f0")
			f[n-1] = vp.Byte("fl")
		}
		return f
	}
	switch kind {
	case 0: // branch: 16 separators, one child field of length 62..70 in slot s
		vp.Assume(tagb&util.NodeTypesAll == util.NodeTypeFullNode)
		flen := 62 + vp.Choose("flen", 9)
		slot := []int{0, 7, 15}[vp.Choose("slot", 3)]
		drop := vp.Choose("dropsep", 3) // 0: none, 1: drop the last separator, 2: drop the separator after the field
		for i := 0; i < 16; i++ {
			if i == slot {
				in = append(in, field(flen)...)
			}
			if (drop == 1 && i == 15) || (drop == 2 && i == slot) {
				continue
			}
			in = append(in, ':')
		}
		in = append(in, vp.Bytes("val", vp.Choose("vlen", 3))...)
	case 1: // leaf: prefix ':' path ':' value with separators removed
		vp.Assume(tagb&util.NodeTypesAll == util.NodeTypeLeafNode)
		drop := vp.Choose("dropsep", 3)
		in = append(in, field(2+vp.Choose("plen", 3))...)
		if drop != 1 {
			in = append(in, ':')
		}
		in = append(in, field(1+vp.Choose("qlen", 40))...)
		if drop != 2 {
			in = append(in, ':')
		}
		in = append(in, vp.Bytes("val", vp.Choose("vlen", 3))...)
	case 2: // extension: path ':' key of length 0..40
		vp.Assume(tagb&util.NodeTypesAll == util.NodeTypeExtensionNode)
		in = append(in, field(1+vp.Choose("plen", 4))...)
		if vp.Choose("dropsep", 2) == 0 {
			in = append(in, ':')
		}
		in = append(in, field([]int{0, 1, 31, 32, 33, 40}[vp.Choose("klen", 6)])...)
	}
	decodeAndReencode(in)
	vp.Cover("C15.createnodelong.done")
}
