// Package c15: C15 — decoders reject malformed bytes without crashing.
package c15

import (
	"bytes"

	"github.com/fxamacker/cbor/v2"

	"github.com/0chain/common/core/util"
	"github.com/0chain/common/core/util/wmpt"

	"verifharness/vp"
)

var Harnesses = map[string]func(){
	"H_CreateNode":     H_CreateNode,
	"H_CreateNodeLong": H_CreateNodeLong,
	"H_WmptNode":       H_WmptNode,
	"H_WmptTrie":       H_WmptTrie,
}

func decodeAndReencode(in []byte) {
	var n util.Node
	var err error
	if vp.NoPanic("C15.createnode.nopanic", func() { n, err = util.CreateNode(bytes.NewReader(in)) }) {
		return
	}
	vp.Observe("decode", err != nil)
	if err == nil && n != nil {
		// anything accepted re-encodes and hashes without panicking
		vp.NoPanic("C15.createnode.reencode-nopanic", func() {
			_ = n.Encode()
			_ = n.GetHashBytes()
			_ = n.GetNodeType()
		})
		vp.Cover("C15.accepted")
	} else {
		vp.Cover("C15.rejected")
	}
}

// H_CreateNode: every byte string of length n <= nmax, all bytes symbolic
// (tag byte optionally constrained to one node kind to go deeper).
func H_CreateNode() {
	nmin := vp.Param("nmin", 0)
	nmax := vp.Param("nmax", 25)
	tag := vp.Param("tag", -1)
	n := nmin + vp.Choose("n", nmax-nmin+1)
	in := vp.Bytes("in", n)
	if tag >= 0 && n > 0 {
		vp.Assume(in[0]&util.NodeTypesAll == byte(tag))
	}
	decodeAndReencode(in)
	vp.Cover("C15.createnode.done")
}

// H_CreateNodeLong: near-valid encodings that the byte bound cannot reach: a valid
// header and body shape with one field of inflated length (concrete hex digits,
// two positions symbolic), separators removed one at a time, tag byte symbolic.
func H_CreateNodeLong() {
	kind := vp.Choose("kind", 3)
	hdr := vp.Bytes("hdr", 16)
	tagb := vp.Byte("tag")
	in := append([]byte{tagb}, hdr...)
	hexd := []byte("0123456789abcdef")
	field := func(n int) []byte {
		f := make([]byte, n)
		for i := range f {
			f[i] = hexd[(i*7+3)%16]
		}
		if n > 1 {
			f[0] = vp.Byte("f0")
			f[n-1] = vp.Byte("fl")
		}
		return f
	}
	switch kind {
	case 0: // branch: 16 separators, one child field of length 62..70 in slot s
		vp.Assume(tagb&util.NodeTypesAll == util.NodeTypeFullNode)
		flen := 62 + vp.Choose("flen", 9)
		slot := []int{0, 7, 15}[vp.Choose("slot", 3)]
		drop := vp.Choose("dropsep", 3) // 0: none, 1: drop the last separator, 2: drop the separator after the field
		for i := 0; i < 16; i++ {
			if i == slot {
				in = append(in, field(flen)...)
			}
			if (drop == 1 && i == 15) || (drop == 2 && i == slot) {
				continue
			}
			in = append(in, ':')
		}
		in = append(in, vp.Bytes("val", vp.Choose("vlen", 3))...)
	case 1: // leaf: prefix ':' path ':' value with separators removed
		vp.Assume(tagb&util.NodeTypesAll == util.NodeTypeLeafNode)
		drop := vp.Choose("dropsep", 3)
		in = append(in, field(2+vp.Choose("plen", 3))...)
		if drop != 1 {
			in = append(in, ':')
		}
		in = append(in, field(1+vp.Choose("qlen", 40))...)
		if drop != 2 {
			in = append(in, ':')
		}
		in = append(in, vp.Bytes("val", vp.Choose("vlen", 3))...)
	case 2: // extension: path ':' key of length 0..40
		vp.Assume(tagb&util.NodeTypesAll == util.NodeTypeExtensionNode)
		in = append(in, field(1+vp.Choose("plen", 4))...)
		if vp.Choose("dropsep", 2) == 0 {
			in = append(in, ':')
		}
		in = append(in, field([]int{0, 1, 31, 32, 33, 40}[vp.Choose("klen", 6)])...)
	}
	decodeAndReencode(in)
	vp.Cover("C15.createnodelong.done")
}

// ---------------------------------------------------------------- weighted trie decoders

func symBytes(name string, n int, sym bool) []byte {
	if n == 0 {
		return nil
	}
	if sym {
		return vp.Bytes(name, n)
	}
	b := make([]byte, n)
	for i := range b {
		b[i] = byte(7*i + 1)
	}
	// the weight field (bytes 32..39) stays symbolic where present
	if n >= 40 {
		copy(b[32:40], vp.Bytes(name+".w", 8))
	}
	return b
}

var childLens = []int{0, 1, 39, 40, 41, 71, 72, 73, 104}
var hashLens = []int{0, 31, 32, 33}

// genNode builds a value of the CBOR target type PersistNodeBase within the bounds:
// any subset of the five variants, child counts 0..18, boundary lengths everywhere.
func genNode(name string) *wmpt.PersistNodeBase {
	pn := &wmpt.PersistNodeBase{}
	// one primary variant explored in full, the other variants present or not in trivial form
	primary := vp.Choose(name+".primary", 6)
	extras := []int{0, 31, 1, 2, 4, 8, 16}[vp.Choose(name+".extras", 7)]
	mask := extras
	if primary < 5 {
		mask |= 1 << uint(primary)
	}
	if mask&1 != 0 {
		br := &wmpt.PersistNodeBranch{Hash: symBytes(name+".bhash", 32, false)}
		if primary == 0 {
			n := []int{0, 1, 15, 16, 17, 18}[vp.Choose(name+".nchildren", 6)]
			br.Hash = symBytes(name+".bhash", hashLens[vp.Choose(name+".bhashlen", 4)], false)
			if n > 0 {
				br.Children = make([][]byte, n)
				special := []int{0, n - 1}[vp.Choose(name+".special", 2)]
				for i := range br.Children {
					switch {
					case i == special:
						br.Children[i] = symBytes(name+".child", childLens[vp.Choose(name+".childlen", len(childLens))], false)
					case i%2 == 1:
						br.Children[i] = symBytes(name+".c40", 40, false)
					}
				}
			}
		}
		pn.Branch = br
	}
	if mask&2 != 0 {
		pn.Value = &wmpt.PersistNodeValue{Value: []byte{1}, Hash: symBytes(name+".vhash", 32, false), Weight: 1}
		if primary == 1 {
			pn.Value = &wmpt.PersistNodeValue{
				Value:  symBytes(name+".vvalue", []int{0, 1, 3}[vp.Choose(name+".vlen", 3)], true),
				Hash:   symBytes(name+".vhash", hashLens[vp.Choose(name+".vhashlen", 4)], false),
				Weight: vp.Uint64(name + ".vweight"),
			}
		}
	}
	if mask&4 != 0 {
		pn.Short = &wmpt.PersistNodeShort{Key: []byte{1}, Hash: symBytes(name+".shash", 32, false), Value: symBytes(name+".svalue", 40, false)}
		if primary == 2 {
			pn.Short = &wmpt.PersistNodeShort{
				Key:   symBytes(name+".skey", []int{0, 1, 64}[vp.Choose(name+".sklen", 3)], false),
				Hash:  symBytes(name+".shash", hashLens[vp.Choose(name+".shashlen", 4)], false),
				Value: symBytes(name+".svalue", []int{0, 39, 40, 41}[vp.Choose(name+".svlen", 4)], false),
			}
		}
	}
	if mask&8 != 0 {
		pn.NilNode = &wmpt.PersistNilNode{}
	}
	if mask&16 != 0 {
		pn.HashNode = &wmpt.PersistHashNode{Hash: symBytes(name+".hhash", 32, false), Weight: 1}
		if primary == 4 {
			pn.HashNode = &wmpt.PersistHashNode{Hash: symBytes(name+".hhash", hashLens[vp.Choose(name+".hhashlen", 4)], false), Weight: vp.Uint64(name + ".hweight")}
		}
	}
	return pn
}

func marshalNode(pn *wmpt.PersistNodeBase) []byte {
	b, err := cbor.Marshal(pn)
	if err != nil {
		panic(err)
	}
	return b
}

// H_WmptNode: every value of the node type within the bounds through DeserializeNode;
// accepted nodes must re-serialise, hash and copy without panicking.
func H_WmptNode() {
	var data []byte
	if vp.Choose("raw", 8) == 0 {
		data = []byte{0x01, 0x02, 0x03} // bytes the CBOR library rejects
	} else {
		data = marshalNode(genNode("n"))
	}
	var n wmpt.Node
	var err error
	if vp.NoPanic("C15.wmpt.deserializenode.nopanic", func() { n, err = wmpt.DeserializeNode(data) }) {
		return
	}
	vp.Observe("node", err != nil)
	if err == nil && n != nil {
		vp.NoPanic("C15.wmpt.reencode.nopanic", func() {
			_ = n.Weight()
			_ = n.Hash()
			_ = n.CalcHash()
			_, _ = n.Serialize()
			_ = n.Copy()
			_ = n.CopyRoot(0, 1)
		})
		vp.Cover("C15.wmpt.node.accepted")
	} else {
		vp.Cover("C15.wmpt.node.rejected")
	}
	vp.Cover("C15.wmpt.node.done")
}

// H_WmptTrie: path exports / block proofs of up to 3 elements built from such nodes.
func H_WmptTrie() {
	np := vp.Choose("npairs", vp.Param("maxpairs", 3)+1)
	pt := &wmpt.PersistTrie{}
	for i := 0; i < np; i++ {
		// an element of the array may be a CBOR null: it decodes to a nil *PersistTriePair
		if vp.Choose("p"+string(rune('0'+i))+".null", 2) == 1 {
			pt.Pairs = append(pt.Pairs, nil)
			continue
		}
		pt.Pairs = append(pt.Pairs, &wmpt.PersistTriePair{Value: marshalNode(genNodeSmall("p" + string(rune('0'+i))))})
	}
	data, err := cbor.Marshal(pt)
	if err != nil {
		panic(err)
	}
	if vp.Choose("entry", 2) == 0 {
		t := wmpt.New(nil, nil)
		var derr error
		if vp.NoPanic("C15.wmpt.deserialize.nopanic", func() { derr = t.Deserialize(data) }) {
			return
		}
		vp.Observe("trie", derr != nil)
		if derr == nil {
			vp.NoPanic("C15.wmpt.reencode.nopanic", func() {
				_ = t.Root()
				_ = t.Weight()
			})
		}
	} else {
		b := vp.Uint64("block")
		var verr error
		if vp.NoPanic("C15.wmpt.verifyproof.nopanic", func() { _, _, verr = wmpt.New(nil, nil).VerifyBlockProof(b, data) }) {
			return
		}
		vp.Observe("proof", verr != nil)
	}
	vp.Cover("C15.wmpt.trie.done")
}

// genNodeSmall: one variant per element, fewer length classes (keeps 3-element products tractable).
func genNodeSmall(name string) *wmpt.PersistNodeBase {
	pn := &wmpt.PersistNodeBase{}
	switch vp.Choose(name+".variant", 6) {
	case 0:
		n := []int{0, 2, 16, 17}[vp.Choose(name+".nchildren", 4)]
		br := &wmpt.PersistNodeBranch{Hash: symBytes(name+".bhash", 32, false)}
		if n > 0 {
			br.Children = make([][]byte, n)
			br.Children[0] = symBytes(name+".child", []int{0, 40, 41, 72, 73}[vp.Choose(name+".childlen", 5)], false)
			br.Children[n-1] = symBytes(name+".c40", 40, false)
		}
		pn.Branch = br
	case 1:
		pn.Value = &wmpt.PersistNodeValue{Value: symBytes(name+".vvalue", 1, true), Hash: symBytes(name+".vhash", 32, false), Weight: vp.Uint64(name + ".vweight")}
	case 2:
		pn.Short = &wmpt.PersistNodeShort{Key: symBytes(name+".skey", []int{0, 1}[vp.Choose(name+".sklen", 2)], false), Hash: symBytes(name+".shash", 32, false),
			Value: symBytes(name+".svalue", []int{39, 40}[vp.Choose(name+".svlen", 2)], false)}
	case 3:
		pn.NilNode = &wmpt.PersistNilNode{}
	case 4:
		pn.HashNode = &wmpt.PersistHashNode{Hash: symBytes(name+".hhash", []int{0, 32}[vp.Choose(name+".hhashlen", 2)], false), Weight: vp.Uint64(name + ".hweight")}
	case 5: // no variant at all
	}
	return pn
}
