// Package c02: C02 — the state root is a canonical, format-stable commitment to content.
//
// The oracle below re-implements the published node-hash format and the canonical
// trie shape from the specification; it shares no code with core/util's node or trie
// implementation (only the hash primitive, which is abstracted as an injective
// function in symbolic mode).
package c02

import (
	"encoding/hex"
	"sort"

	"github.com/0chain/common/core/encryption"
	"github.com/0chain/common/core/util"

	"verifharness/mptlib"
	"verifharness/vp"
)

var Harnesses = map[string]func(){
	"H_Root":      H_Root,
	"H_Injective": H_Injective,
}

type entry struct {
	rest  []byte
	value []byte
}

func le64(v int64) []byte {
	b := make([]byte, 8)
	u := uint64(v)
	for i := 0; i < 8; i++ {
		b[i] = byte(u >> (8 * uint(i)))
	}
	return b
}

func cat(parts ...[]byte) []byte {
	var r []byte
	for _, p := range parts {
		r = append(r, p...)
	}
	return r
}

// build returns the hash of the canonical node for entries es below prefix p (nil = no node).
func build(version int64, p []byte, es []entry) []byte {
	switch len(es) {
	case 0:
		return nil
	case 1:
		// leaf: origin, prefix ':' path ':' value
		return encryption.RawHash(cat(le64(version), p, []byte{':'}, es[0].rest, []byte{':'}, es[0].value))
	}
	// longest common prefix of all rests (empty if some rest is empty)
	c := es[0].rest
	for _, e := range es[1:] {
		n := 0
		for n < len(c) && n < len(e.rest) && c[n] == e.rest[n] {
			n++
		}
		c = c[:n]
	}
	if len(c) > 0 {
		var sub []entry
		for _, e := range es {
			sub = append(sub, entry{e.rest[len(c):], e.value})
		}
		child := branch(version, cat(p, c), sub)
		// extension: origin, path ':' raw child key
		return encryption.RawHash(cat(le64(version), c, []byte{':'}, child))
	}
	return branch(version, p, es)
}

// branch: origin, 16 x (hex(child)? ':'), value
func branch(version int64, p []byte, es []entry) []byte {
	enc := le64(version)
	var value []byte
	for _, x := range []byte("0123456789abcdef") {
		var sub []entry
		for _, e := range es {
			if len(e.rest) > 0 && e.rest[0] == x {
				sub = append(sub, entry{e.rest[1:], e.value})
			}
		}
		if h := build(version, cat(p, []byte{x}), sub); h != nil {
			enc = append(enc, []byte(hex.EncodeToString(h))...)
		}
		enc = append(enc, ':')
	}
	for _, e := range es {
		if len(e.rest) == 0 {
			value = e.value
		}
	}
	enc = append(enc, value...)
	return encryption.RawHash(enc)
}

// RefRoot computes the root from the sorted content by specification.
func RefRoot(r *mptlib.Ref, version int64) []byte {
	var es []entry
	ks := r.Live()
	sort.Strings(ks)
	for _, k := range ks {
		es = append(es, entry{[]byte(k), r.M[k]})
	}
	return build(version, nil, es)
}

func sameBytes(a, b []byte) bool {
	if len(a) != len(b) {
		return false
	}
	for i := range a {
		if a[i] != b[i] {
			return false
		}
	}
	return true
}

// H_Root: seed + k symbolic inserts/deletes; after every operation the trie root must
// equal the oracle's root for the reference content (history independence + format).
func H_Root() {
	store := vp.Param("store", 0)
	seed := vp.Param("seed", 0)
	k := vp.Param("k", 1)
	alpha := mptlib.Alphabet(vp.Param("alpha", 2))
	lmax := vp.Param("lmax", 4)
	vmax := vp.Param("vmax", 1)
	version := vp.Int64("version")
	db := mptlib.NewStore(store, "c02")
	t := mptlib.NewTrie(db, version, nil)
	ref := mptlib.NewRef()
	mptlib.ApplySeed(t, ref, seed)
	vp.Assert("C02.root-matches-oracle", sameBytes(t.GetRoot(), RefRoot(ref, version)))
	for i := 0; i < k; i++ {
		kind := vp.Choose("op", 2)
		p := mptlib.GenPath("p", alpha, lmax)
		if kind == 0 {
			v := mptlib.GenValue("v", vmax)
			if vp.NoPanic("C02.nopanic", func() { t.Insert(util.Path(mptlib.Cp(p)), mptlib.Val(v)) }) {
				return
			}
			ref.Put(p, v)
		} else {
			var err error
			if vp.NoPanic("C02.nopanic", func() { _, err = t.Delete(util.Path(mptlib.Cp(p))) }) {
				return
			}
			if err == nil {
				ref.Del(p)
			}
		}
		got := t.GetRoot()
		want := RefRoot(ref, version)
		vp.Observe("root-eq", sameBytes(got, want))
		vp.Assert("C02.root-matches-oracle", sameBytes(got, want))
	}
	vp.Cover("C02.root.done")
}

func history(name string, version int64, k int, alpha []byte, lmax int) (*mptlib.Ref, []byte, bool) {
	t := mptlib.NewTrie(util.NewMemoryNodeDB(), version, nil)
	ref := mptlib.NewRef()
	for i := 0; i < k; i++ {
		kind := vp.Choose(name+".op", 2)
		p := mptlib.GenPath(name+".p", alpha, lmax)
		if kind == 0 {
			v := mptlib.GenValue(name+".v", 1)
			if vp.NoPanic("C02.nopanic", func() { t.Insert(util.Path(mptlib.Cp(p)), mptlib.Val(v)) }) {
				return nil, nil, false
			}
			ref.Put(p, v)
		} else {
			var err error
			if vp.NoPanic("C02.nopanic", func() { _, err = t.Delete(util.Path(mptlib.Cp(p))) }) {
				return nil, nil, false
			}
			if err == nil {
				ref.Del(p)
			}
		}
	}
	return ref, t.GetRoot(), true
}

// H_Injective: two histories at the same version; different content must give different roots.
func H_Injective() {
	k := vp.Param("k", 2)
	alpha := mptlib.Alphabet(vp.Param("alpha", 2))
	lmax := vp.Param("lmax", 2)
	version := vp.Int64("version")
	r1, root1, ok1 := history("h1", version, k, alpha, lmax)
	r2, root2, ok2 := history("h2", version, k, alpha, lmax)
	if !ok1 || !ok2 {
		return
	}
	same := len(r1.M) == len(r2.M)
	if same {
		for p, v1 := range r1.M {
			v2, ok := r2.M[p]
			if !ok {
				same = false
				break
			}
			same = vp.And(same, mptlib.BytesEq(v1, v2))
		}
	}
	rootsEq := sameBytes(root1, root2)
	vp.Observe("roots-eq", rootsEq)
	vp.Assert("C02.equal-content-equal-root", vp.Or(!same, rootsEq))
	vp.Assert("C02.different-content-different-root", vp.Or(same, !rootsEq))
	vp.Cover("C02.injective.done")
}
