module verifharness

go 1.21

require (
	github.com/0chain/common v0.0.0
	github.com/linxGnu/grocksdb v1.8.0
	github.com/shopspring/decimal v1.3.1
)

require (
	github.com/philhofer/fwd v1.1.2-0.20210722190033-5c56ac6d0bb9 // indirect
	github.com/tinylib/msgp v1.1.6 // indirect
)

replace github.com/0chain/common => /repo

replace github.com/linxGnu/grocksdb => ../stubs/grocksdb

replace github.com/tinylib/msgp => github.com/0chain/msgp v1.1.62
