// Package c07: C07 — cache writes are private until commit and values are never shared.
package c07

import (
	"github.com/0chain/common/core/statecache"
	"github.com/0chain/common/core/util"

	"verifharness/vp"
)

var Harnesses = map[string]func(){
	"H_Layers": H_Layers,
	"H_Nodes":  H_Nodes,
}

// MV is a mutable value with a deep Clone.
type MV struct{ X uint64 }

func (m *MV) Clone() statecache.Value { return &MV{m.X} }
func (m *MV) CopyFrom(v interface{}) bool {
	o, ok := v.(*MV)
	if !ok {
		return false
	}
	m.X = o.X
	return true
}

type ent struct {
	set bool // false = removed
	v   uint64
}

type layer map[string]ent

const key = "k"

// H_Layers: one state cache with a committed root block, two block caches A and B on
// top of it, transaction caches A1, A2, B1; a program of forced + free operations.
// After every Set the harness mutates the object it handed in, after every Get the
// object it received; every Get is compared with layered reference maps.
func H_Layers() {
	free := vp.Param("free", 3)
	forced := vp.Param("forced", 2)
	sc := statecache.NewStateCache()
	// committed root block R (optionally holding a value)
	root := statecache.NewBlockCache(sc, statecache.Block{Round: 1, Hash: "R", PrevHash: "genesis"})
	committed := map[string]layer{"R": {}}
	parentOf := map[string]string{"A": "R", "B": "R"}
	if vp.Choose("root-has-value", 2) == 1 {
		rv := vp.Uint64("rv")
		root.Set(key, &MV{rv})
		committed["R"][key] = ent{true, rv}
	}
	root.Commit()

	bcs := []*statecache.BlockCache{
		statecache.NewBlockCache(sc, statecache.Block{Round: 2, Hash: "A", PrevHash: "R"}),
		statecache.NewBlockCache(sc, statecache.Block{Round: 2, Hash: "B", PrevHash: "R"}),
	}
	bnames := []string{"A", "B"}
	blayer := []layer{{}, {}}
	bdone := []bool{false, false}
	tcBlock := []int{0, 0, 1}
	tcs := []*statecache.TransactionCache{
		statecache.NewTransactionCache(bcs[0]), statecache.NewTransactionCache(bcs[0]), statecache.NewTransactionCache(bcs[1]),
	}
	tlayer := []layer{{}, {}, {}}

	// value as of committed block h (own committed writes first, then ancestors)
	var atCommitted func(h string) (ent, bool)
	atCommitted = func(h string) (ent, bool) {
		for ; h != ""; h = parentOf[h] {
			l, ok := committed[h]
			if !ok {
				return ent{}, false // not committed: nothing known
			}
			if e, ok := l[key]; ok {
				return e, true
			}
		}
		return ent{}, false
	}
	atBlock := func(j int) (ent, bool) {
		if e, ok := blayer[j][key]; ok {
			return e, true
		}
		return atCommitted("R")
	}
	atTxn := func(i int) (ent, bool) {
		if e, ok := tlayer[i][key]; ok {
			return e, true
		}
		return atBlock(tcBlock[i])
	}
	// check a Get result against the oracle; exact: the bounds are far below every capacity
	check := func(lbl string, got statecache.Value, hit bool, e ent, known bool) {
		want := known && e.set
		vp.Assert(lbl+".hit-iff-visible-write", hit == want)
		if hit {
			mv, ok := got.(*MV)
			vp.Assert(lbl+".value-type", ok && mv != nil)
			if ok && mv != nil {
				if want {
					vp.Assert(lbl+".value", mv.X == e.v)
				}
				vp.Observe(lbl, mv.X)
				mv.X = mv.X + 1 // mutate what we received: must never show up later
			}
		} else {
			vp.Observe(lbl, "miss")
		}
	}

	steps := forced + free
	for s := 0; s < steps; s++ {
		var op, who int
		switch {
		case s == 0 && forced >= 1:
			op, who = 0, 0 // A1.Set
		case s == 1 && forced >= 2:
			op, who = 0, 2 // B1.Set
		default:
			op = vp.Choose("op", 7)
			switch op {
			case 0, 1, 2, 3:
				who = vp.Choose("tc", 3)
			default:
				who = vp.Choose("bc", 2)
			}
		}
		stop := false
		pan := vp.NoPanic("C07.nopanic", func() {
			switch op {
			case 0: // txn set, then mutate the object handed in
				if bdone[tcBlock[who]] {
					stop = true
					return
				}
				v := vp.Uint64("v")
				obj := &MV{v}
				tcs[who].Set(key, obj)
				obj.X = obj.X + 7
				tlayer[who][key] = ent{true, v}
			case 1: // txn remove
				if bdone[tcBlock[who]] {
					stop = true
					return
				}
				tcs[who].Remove(key)
				tlayer[who][key] = ent{false, 0}
			case 2: // txn get
				if bdone[tcBlock[who]] {
					stop = true
					return
				}
				got, hit := tcs[who].Get(key)
				e, known := atTxn(who)
				check("C07.txn-get", got, hit, e, known)
			case 3: // txn commit -> block
				if bdone[tcBlock[who]] {
					stop = true
					return
				}
				tcs[who].Commit()
				for k, e := range tlayer[who] {
					blayer[tcBlock[who]][k] = e
				}
				tlayer[who] = layer{}
			case 4: // block get (only before its own commit)
				if bdone[who] {
					stop = true
					return
				}
				got, hit := bcs[who].Get(key)
				e, known := atBlock(who)
				check("C07.block-get", got, hit, e, known)
			case 5: // block commit -> state
				if bdone[who] {
					stop = true
					return
				}
				bcs[who].Commit()
				committed[bnames[who]] = blayer[who]
				bdone[who] = true
			case 6: // query committed state at block who (and through a fresh descendant block)
				got, hit := statecache.NewQueryBlockCache(sc, bnames[who]).Get(key)
				if _, isCommitted := committed[bnames[who]]; isCommitted {
					e, known := atCommitted(bnames[who])
					check("C07.query", got, hit, e, known)
					child := statecache.NewBlockCache(sc, statecache.Block{Round: 3, Hash: "child", PrevHash: bnames[who]})
					got2, hit2 := statecache.NewTransactionCache(child).Get(key)
					check("C07.descendant", got2, hit2, e, known)
				} else {
					// an uncommitted block's writes are invisible to everybody else
					vp.Assert("C07.uncommitted-block-invisible", !hit)
				}
			}
		})
		if pan {
			return
		}
		if stop {
			vp.Assume(false) // operation not applicable in this state
		}
	}
	// final re-read through all layers
	if vp.NoPanic("C07.nopanic", func() {
		for i := range tcs {
			if !bdone[tcBlock[i]] {
				got, hit := tcs[i].Get(key)
				e, known := atTxn(i)
				check("C07.final-txn", got, hit, e, known)
			}
		}
		for j := range bcs {
			if !bdone[j] {
				got, hit := bcs[j].Get(key)
				e, known := atBlock(j)
				check("C07.final-block", got, hit, e, known)
			} else {
				got, hit := statecache.NewQueryBlockCache(sc, bnames[j]).Get(key)
				e, known := atCommitted(bnames[j])
				check("C07.final-query", got, hit, e, known)
			}
		}
		got, hit := statecache.NewQueryBlockCache(sc, "R").Get(key)
		e, known := atCommitted("R")
		check("C07.final-root", got, hit, e, known)
	}) {
		return
	}
	vp.Cover("C07.done")
}

// H_Nodes: the same independence with real trie nodes as values (Clone = encode/decode).
func H_Nodes() {
	sc := statecache.NewStateCache()
	bc := statecache.NewBlockCache(sc, statecache.Block{Round: 1, Hash: "N", PrevHash: "genesis"})
	tc := statecache.NewTransactionCache(bc)
	kind := vp.Choose("kind", 3)
	val := vp.Bytes("val", 2)
	var n util.Node
	switch kind {
	case 0:
		n = util.NewLeafNode([]byte("a"), []byte("bc"), 3, &util.SecureSerializableValue{Buffer: append([]byte{}, val...)})
	case 1:
		fn := util.NewFullNode(&util.SecureSerializableValue{Buffer: append([]byte{}, val...)})
		fn.PutChild('a', make([]byte, 32))
		n = fn
	case 2:
		k := make([]byte, 32)
		k[0] = val[0]
		n = util.NewExtensionNode([]byte("ab"), k)
	}
	enc0 := n.Encode()
	payload := func(v util.MPTSerializable) {
		if sv, ok := v.(*util.SecureSerializableValue); ok && len(sv.Buffer) > 0 {
			sv.Buffer[0] ^= 0xff // mutate the value payload in place
		}
	}
	mutate := func(x util.Node) {
		switch xi := x.(type) {
		case *util.LeafNode:
			xi.Path[0] = 'f'
			payload(xi.GetValue())
			xi.SetOrigin(99)
		case *util.FullNode:
			xi.Children[10][0] = 0xff
			payload(xi.GetValue())
			xi.SetOrigin(99)
		case *util.ExtensionNode:
			xi.Path[0] = 'f'
			xi.NodeKey[1] = 0xff
			xi.SetOrigin(99)
		}
	}
	same := func(lbl string, v statecache.Value, hit bool) {
		vp.Assert(lbl+".hit", hit)
		if !hit {
			return
		}
		x, ok := v.(util.Node)
		vp.Assert(lbl+".node", ok)
		if ok {
			e := x.Encode()
			eq := len(e) == len(enc0)
			if eq {
				for i := range e {
					eq = vp.And(eq, e[i] == enc0[i])
				}
			}
			vp.Assert(lbl+".unchanged", eq)
			mutate(x)
		}
	}
	if vp.NoPanic("C07.nopanic", func() {
		tc.Set("n", n)
		mutate(n)
		v, hit := tc.Get("n")
		same("C07.node.txn", v, hit)
		v, hit = tc.Get("n")
		same("C07.node.txn2", v, hit)
		tc.Commit()
		v, hit = bc.Get("n")
		same("C07.node.block", v, hit)
		v, hit = bc.Get("n")
		same("C07.node.block2", v, hit)
		bc.Commit()
		v, hit = statecache.NewQueryBlockCache(sc, "N").Get("n")
		same("C07.node.state", v, hit)
		v, hit = statecache.NewQueryBlockCache(sc, "N").Get("n")
		same("C07.node.state2", v, hit)
	}) {
		return
	}
	vp.Cover("C07.nodes.done")
}
