// Package vp is the harness API. In symbolic mode (symgo) every function here is
// intercepted by name and never executed; compiled natively these bodies replay a
// solver model (inputs by name) against the real build.
package vp

import (
	"encoding/json"
	"fmt"
	"math"
	"math/big"
	"os"
	"strconv"
	"strings"
	"sync"

	"github.com/shopspring/decimal"
)

// Replay is one concrete assignment to the harness inputs.
type Replay struct {
	Pkg    string            `json:"pkg"`
	Func   string            `json:"func"`
	Inputs map[string]uint64 `json:"inputs"`
	Params map[string]int64  `json:"params"`
	Sched  []int             `json:"sched,omitempty"`
	Expect string            `json:"expect,omitempty"` // label expected to fail (violation replay)
}

// Outcome is what a native replay observed.
type Outcome struct {
	Failed     []string `json:"failed"`     // assertion labels that failed
	Panics     []string `json:"panics"`     // NoPanic labels that panicked (label: message)
	Obs        []string `json:"obs"`        // "label=value"
	Infeasible bool     `json:"infeasible"` // an Assume failed
	Crash      string   `json:"crash,omitempty"`
	Covers     []string `json:"covers"`
}

type state struct {
	ns        *nsched
	r         *Replay
	count     map[string]int
	out       *Outcome
	lastFloat float64
}

var cur *state

type assumeFailed struct{}

// Run executes harness f natively under replay r.
func Run(r *Replay, f func()) (out *Outcome) {
	cur = &state{r: r, count: map[string]int{}, out: &Outcome{}}
	cur.ns = &nsched{threads: []*nthread{{id: 0, wake: make(chan struct{}, 1)}}}
	out = cur.out
	defer func() {
		if p := recover(); p != nil {
			if _, ok := p.(assumeFailed); ok {
				out.Infeasible = true
				return
			}
			out.Crash = fmt.Sprint(p)
		}
	}()
	f()
	return
}

func fresh(base string) string {
	n := cur.count[base]
	cur.count[base] = n + 1
	if n == 0 {
		return base
	}
	return fmt.Sprintf("%s#%d", base, n)
}

func input(name string) uint64 { return cur.r.Inputs[fresh(name)] }

func Symbolic() bool              { return false }
func Uint64(name string) uint64   { return input(name) }
func Int64(name string) int64     { return int64(input(name)) }
func Byte(name string) byte       { return byte(input(name)) }
func Bool(name string) bool       { return input(name)&1 == 1 }
func Float64(name string) float64 {
	f := math.Float64frombits(input(name))
	// a model of the abstract decimal (symgo's decimal model) determines the float
	if c, ok := cur.r.Inputs["decimal.coeff"]; ok && cur.count["decimal.float"] == 0 {
		if e, ok := cur.r.Inputs["choice.decimal.exp"]; ok {
			lo := int64(-30)
			if v, ok := cur.r.Params["dec_exp_lo"]; ok {
				lo = v
			}
			g, err := strconv.ParseFloat(fmt.Sprintf("%de%d", int64(c), lo+int64(e)), 64)
			if err == nil {
				cur.count["decimal.float"] = 1
				f = g
			}
		}
	}
	cur.lastFloat = f
	return f
}

// LastDecimal returns the decimal (coefficient, exponent) that decimal.NewFromFloat
// produced for the most recent Float64 input; ok is false for 0, NaN and ±Inf.
func LastDecimal() (coeff int64, exp int, ok bool) {
	f := cur.lastFloat
	if f != f || math.IsInf(f, 0) || f == 0 {
		return 0, 0, false
	}
	d := decimal.NewFromFloat(f)
	co := d.Coefficient()
	if !co.IsInt64() {
		panic(assumeFailed{})
	}
	return co.Int64(), int(d.Exponent()), true
}

// MulPow10 returns x*10^e as a 128-bit value; fits is false when it needs more.
func MulPow10(x uint64, e int) (hi, lo uint64, fits bool) {
	p := new(big.Int).Exp(big.NewInt(10), big.NewInt(int64(e)), nil)
	p.Mul(p, new(big.Int).SetUint64(x))
	if p.BitLen() > 128 {
		return 0, 0, false
	}
	m := new(big.Int).SetUint64(math.MaxUint64)
	lo = new(big.Int).And(p, m).Uint64()
	hi = new(big.Int).Rsh(p, 64).Uint64()
	return hi, lo, true
}
func Bytes(name string, n int) []byte {
	b := make([]byte, n)
	for i := range b {
		b[i] = byte(input(fmt.Sprintf("%s[%d]", name, i)))
	}
	return b
}

// Choose returns a value in [0,n); in symbolic mode every feasible value is explored.
func Choose(name string, n int) int {
	if n <= 0 {
		panic(assumeFailed{})
	}
	if n == 1 {
		return 0
	}
	v := int(input(name))
	if v < 0 || v >= n {
		panic(assumeFailed{})
	}
	return v
}

// Param returns a bound configured by the check (same value in both modes).
func Param(name string, def int) int {
	if v, ok := cur.r.Params[name]; ok {
		return int(v)
	}
	return def
}

func Assume(c bool) {
	if !c {
		panic(assumeFailed{})
	}
}

func Assert(label string, c bool) {
	if !c {
		cur.out.Failed = append(cur.out.Failed, label)
	}
}

// Known declares a known-finding region for assertions labelled label.
func Known(label, id string, cond bool) {}

func Cover(label string) { cur.out.Covers = append(cur.out.Covers, label) }

// NoPanic runs f; a panic escaping f violates label. Returns true if f panicked.
func NoPanic(label string, f func()) (panicked bool) {
	defer func() {
		if p := recover(); p != nil {
			if _, ok := p.(assumeFailed); ok {
				panic(p)
			}
			cur.out.Panics = append(cur.out.Panics, fmt.Sprintf("%s: %v", label, p))
			panicked = true
		}
	}()
	f()
	return false
}

// Observe records values whose native and symbolic renderings must agree.
func Observe(label string, vals ...interface{}) {
	var sb strings.Builder
	for i, v := range vals {
		if i > 0 {
			sb.WriteByte(' ')
		}
		writeObs(&sb, v)
	}
	cur.out.Obs = append(cur.out.Obs, label+"="+sb.String())
}

func writeObs(sb *strings.Builder, v interface{}) {
	switch x := v.(type) {
	case nil:
		sb.WriteString("<nil>")
	case []byte:
		if x == nil {
			sb.WriteString("nil")
			return
		}
		for _, b := range x {
			fmt.Fprintf(sb, "%02x", b)
		}
	case string:
		sb.WriteString(x)
	case bool, int, int8, int16, int32, int64, uint, uint8, uint16, uint32, uint64, uintptr, float64:
		fmt.Fprintf(sb, "%v", x)
	default:
		fmt.Fprintf(sb, "<%T>", v)
	}
}

func Mul128(a, b uint64) (hi, lo uint64) {
	const m = 1<<32 - 1
	a0, a1 := a&m, a>>32
	b0, b1 := b&m, b>>32
	w0 := a0 * b0
	t := a1*b0 + w0>>32
	w1 := t & m
	w2 := t >> 32
	w1 += a0 * b1
	hi = a1*b1 + w2 + w1>>32
	lo = a * b
	return
}

// And/Or/Implies evaluate both operands (no short-circuit fork in symbolic mode).
func And(a, b bool) bool     { return a && b }
func Or(a, b bool) bool      { return a || b }
func Implies(a, b bool) bool { return !a || b }
func IteU64(c bool, a, b uint64) uint64 {
	if c {
		return a
	}
	return b
}
func Concrete(x int) int      { return x }
func IsSym(v interface{}) bool { return false }
// ---- schedule replay: goroutines started with vp.Go run one at a time; at every
// scheduling point (vp.Go, vp.Yield / hook, goroutine exit, vp.Wait) the recorded
// schedule names the goroutine that runs next.

type nthread struct {
	id   int
	wake chan struct{}
	done bool
}

type nsched struct {
	threads []*nthread
	cur     int
	pos     int
	free    sync.WaitGroup // used when no schedule is recorded (free-running)
}

func (n *nsched) active() bool { return len(cur.r.Sched) > 0 }

func (n *nsched) next() int {
	if n.pos < len(cur.r.Sched) {
		v := cur.r.Sched[n.pos]
		n.pos++
		if v >= 0 && v < len(n.threads) && !n.threads[v].done {
			return v
		}
	}
	for _, t := range n.threads {
		if !t.done {
			return t.id
		}
	}
	return 0
}

// switchFrom hands the baton to thread nx and parks the caller (unless exiting).
func (n *nsched) switchFrom(me *nthread, nx int, exiting bool) {
	if nx == me.id && !exiting {
		return
	}
	n.cur = nx
	n.threads[nx].wake <- struct{}{}
	if !exiting {
		<-me.wake
	}
}

// Go starts f as a scheduled goroutine.
func Go(f func()) {
	n := cur.ns
	if !n.active() {
		n.free.Add(1)
		go func() { defer n.free.Done(); f() }()
		return
	}
	t := &nthread{id: len(n.threads), wake: make(chan struct{}, 1)}
	n.threads = append(n.threads, t)
	go func() {
		<-t.wake
		f()
		t.done = true
		n.switchFrom(t, n.next(), true)
	}()
	Yield("go")
}

// Yield is a scheduling point (also installed as the repository's verif hook).
func Yield(site string) {
	if cur == nil || cur.ns == nil || !cur.ns.active() || len(cur.ns.threads) <= 1 {
		return
	}
	n := cur.ns
	me := n.threads[n.cur]
	n.switchFrom(me, n.next(), false)
}

// Wait blocks the main goroutine until every goroutine started with Go has finished.
func Wait() {
	n := cur.ns
	if !n.active() {
		n.free.Wait()
		return
	}
	main := n.threads[0]
	for {
		all := true
		for _, t := range n.threads[1:] {
			if !t.done {
				all = false
			}
		}
		if all {
			return
		}
		n.switchFrom(main, n.next(), false)
	}
}

func YieldAtLocks(b bool)                  {}
func ExploreSchedules(preemptionBound int) {}
func FixedSchedule()          {}
func HighFirst(b bool)        {}
func RaceDetect(b bool)       {}
func Logf(format string, a ...interface{}) {
	if os.Getenv("VERIF_VERBOSE") != "" {
		fmt.Fprintf(os.Stderr, format+"\n", a...)
	}
}

// Batch is the replay file format: a list of replays, answered by a list of outcomes.
type Batch struct {
	Replays []*Replay `json:"replays"`
}

// RunBatch is called by each harness package's TestReplay.
func RunBatch(harnesses map[string]func(), setup func()) error {
	path := os.Getenv("VERIF_REPLAY")
	if path == "" {
		return nil
	}
	b, err := os.ReadFile(path)
	if err != nil {
		return err
	}
	var batch Batch
	if err := json.Unmarshal(b, &batch); err != nil {
		return err
	}
	var outs []*Outcome
	for _, r := range batch.Replays {
		f := harnesses[r.Func]
		if f == nil {
			outs = append(outs, &Outcome{Crash: "no harness " + r.Func})
			continue
		}
		rep := 1
		if v := os.Getenv("VERIF_REPEAT"); v != "" {
			if n, err := strconv.Atoi(v); err == nil && n > 0 {
				rep = n
			}
		}
		var o *Outcome
		for i := 0; i < rep; i++ {
			if setup != nil {
				setup()
			}
			o = Run(r, f)
			if len(o.Failed) > 0 || len(o.Panics) > 0 || o.Crash != "" {
				break // keep the first failing repetition (schedule-dependent failures)
			}
		}
		outs = append(outs, o)
	}
	ob, _ := json.Marshal(outs)
	return os.WriteFile(os.Getenv("VERIF_REPLAY_OUT"), ob, 0o644)
}
