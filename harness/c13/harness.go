// Package c13: C13 — rolling back a weighted-trie commit restores the checkpoint exactly.
package c13

import (
	"bytes"

	"github.com/0chain/common/core/util/wmpt"

	"verifharness/vp"
	"verifharness/wmptlib"
)

var Harnesses = map[string]func(){
	"H_Rollback": H_Rollback,
}

var levels = []int{0, 1, 64}

func H_Rollback() {
	nk := vp.Param("keys", 2)
	nch := vp.Param("changes", 2)
	pool := wmptlib.Pool()
	pool = [][]byte{pool[0], pool[1], pool[4], pool[3], pool[5]}
	db := wmptlib.NewMemStore()
	t := wmpt.New(nil, db)
	ref := wmptlib.NewRef()
	// known-finding region (KF-C11-3 seen through rollback): two different keys were given
	// identical (value, weight) at some time and share one content-addressed value node
	type hist struct {
		key int
		tag byte
		pb  byte
	}
	var written []hist
	dup := false
	note := func(i int, tag, pb byte) {
		for _, h := range written {
			if h.key != i && h.tag == tag {
				dup = vp.Or(dup, h.pb == pb)
			}
		}
		written = append(written, hist{i, tag, pb})
	}
	for i := 0; i < nk; i++ {
		pb := vp.Byte("payload")
		note(i, 0x5a, pb)
		v := []byte{pb, 0x5a}
		w := uint64(pb) + 1
		if err := t.Update(pool[i], v, w); err != nil {
			panic(err)
		}
		ref.Put(pool[i], v, w)
	}
	commit := func(lvl int) bool {
		var err error
		if vp.NoPanic("C13.nopanic", func() {
			b, e := t.Commit(lvl)
			err = e
			if e == nil {
				err = b.Commit(false)
			}
		}) {
			return false
		}
		vp.Assert("C13.commit-ok", err == nil)
		return true
	}
	if !commit(levels[vp.Choose("cplevel", len(levels))]) {
		return
	}
	if vp.Param("pregc", 0) == 1 {
		// an earlier round before the checkpoint: one value changed, committed, one GC pass
		// (so that the next pass has something staged for physical deletion)
		pb := vp.Byte("prepayload")
		note(0, 0x7c, pb)
		v := []byte{pb, 0x7c}
		if err := t.Update(pool[0], v, uint64(pb)+1); err != nil {
			panic(err)
		}
		ref.Put(pool[0], v, uint64(pb)+1)
		if !commit(0) {
			return
		}
		var err error
		if vp.NoPanic("C13.nopanic", func() { err = t.DeleteNodes() }) {
			return
		}
		vp.Assert("C13.gc-ok", err == nil)
	}
	// checkpoint
	cpRoot := append([]byte{}, t.Root()...)
	cpWeight := t.Weight()
	cpRef := ref.Clone()
	cpNode := t.CopyRoot(0)
	t.SaveRoot()
	before := map[string]bool{}
	for _, k := range db.Keys() {
		before[k] = true
	}

	// a batch of further changes
	for c := 0; c < nch; c++ {
		kind := vp.Choose("change", 5)
		i := vp.Choose("ckey", nk+1) // nk = a new key
		key := pool[i]
		var err error
		pan := false
		switch kind {
		case 0: // new or changed value
			pb := vp.Byte("cpayload")
			note(i, 0x6b, pb)
			v := []byte{pb, 0x6b}
			pan = vp.NoPanic("C13.nopanic", func() { err = t.Update(key, v, uint64(pb)+1) })
			ref.Put(key, v, uint64(pb)+1)
		case 1: // identical re-write
			e, ok := ref.M[string(key)]
			if !ok {
				vp.Assume(false)
			}
			pan = vp.NoPanic("C13.nopanic", func() { err = t.Update(key, append([]byte{}, e.Value...), e.Weight) })
		case 2: // delete and re-add identical content
			e, ok := ref.M[string(key)]
			if !ok {
				vp.Assume(false)
			}
			pan = vp.NoPanic("C13.nopanic", func() {
				err = t.Update(key, nil, 0)
				if err == nil {
					err = t.Update(key, append([]byte{}, e.Value...), e.Weight)
				}
			})
		case 3: // delete
			if !ref.Has(key) {
				vp.Assume(false)
			}
			pan = vp.NoPanic("C13.nopanic", func() { err = t.Update(key, nil, 0) })
			ref.Del(key)
		case 4: // no change
		}
		if pan {
			return
		}
		vp.Assert("C13.change-ok", err == nil)
	}
	if !commit(levels[vp.Choose("level", len(levels))]) {
		return
	}
	switch vp.Choose("gc", 2+vp.Param("gcfault", 0)) {
	case 1:
		var err error
		if vp.NoPanic("C13.nopanic", func() { err = t.DeleteNodes() }) {
			return
		}
		vp.Assert("C13.gc-ok", err == nil)
	case 2:
		// the pass hits a storage error on its batch and is retried by the caller
		db.FailBatches = 1
		var err error
		if vp.NoPanic("C13.nopanic", func() { err = t.DeleteNodes() }) {
			return
		}
		if db.FailBatches == 0 {
			vp.Assert("C13.gc-fault-reported", err != nil)
			vp.Cover("C13.gc-fault")
		}
		db.FailBatches = 0
		if vp.NoPanic("C13.nopanic", func() { err = t.DeleteNodes() }) {
			return
		}
		vp.Assert("C13.gc-ok", err == nil)
	}
	afterCommit := map[string]bool{}
	for _, k := range db.Keys() {
		afterCommit[k] = true
	}

	// roll back via either entry point
	if vp.Choose("entry", 2) == 0 {
		if vp.NoPanic("C13.nopanic", func() { t.Rollback() }) {
			return
		}
	} else {
		if vp.NoPanic("C13.nopanic", func() { t.RollbackTrie(cpNode) }) {
			return
		}
	}
	var root []byte
	if vp.NoPanic("C13.nopanic", func() { root = t.Root() }) {
		return
	}
	vp.Assert("C13.root-restored", bytes.Equal(root, cpRoot))
	vp.Assert("C13.weight-restored", t.Weight() == cpWeight)

	// every node of the checkpoint state still resolves: reopen and serve every block
	es := cpRef.Sorted()
	r := wmpt.New(wmpt.NewHashNode(append([]byte{}, cpRoot...), cpWeight), db)
	b := vp.Uint64("block")
	vp.Assume(b >= 1)
	vp.Assume(b <= cpRef.Total())
	var key, proof []byte
	var err error
	if vp.NoPanic("C13.nopanic", func() { key, proof, err = r.GetBlockProof(b) }) {
		return
	}
	if vp.Param("pregc", 0) == 1 {
		vp.Known("C13.checkpoint-resolves", "two-keys-with-identical-value-and-weight", dup)
		vp.Known("C13.checkpoint-resolves-after-gc", "two-keys-with-identical-value-and-weight", dup)
	}
	vp.Assert("C13.checkpoint-resolves", err == nil)
	if err == nil {
		owner := -1
		for i, e := range es {
			if bytes.Equal(e.Key, key) {
				owner = i
			}
		}
		vp.Assert("C13.checkpoint-owner", owner >= 0 && wmptlib.OwnerIs(es, owner, b))
		var hash, val []byte
		if vp.NoPanic("C13.nopanic", func() { hash, val, err = wmpt.New(nil, nil).VerifyBlockProof(b, proof) }) {
			return
		}
		vp.Assert("C13.checkpoint-proof-verifies", err == nil && bytes.Equal(hash, cpRoot))
		if err == nil && owner >= 0 {
			vp.Assert("C13.checkpoint-value", wmptlib.BytesEq(val, es[owner].Value))
		}
	}
	// nodes that only the rolled-back commit created are gone from storage
	for _, k := range db.Keys() {
		vp.Assert("C13.no-leftover-of-rolled-back-commit", before[k])
	}
	vp.Observe("rolled-back", len(db.Keys()), len(before), len(afterCommit))
	// ... and the checkpoint state stays resolvable through the garbage-collection passes that
	// follow the rollback (nothing the rolled-back commit superseded may still be staged)
	if vp.Param("gc_after", 0) == 1 {
		var gerr error
		if vp.NoPanic("C13.nopanic", func() {
			gerr = t.DeleteNodes()
			if gerr == nil {
				gerr = t.DeleteNodes()
			}
		}) {
			return
		}
		vp.Assert("C13.gc-after-rollback-ok", gerr == nil)
		r2 := wmpt.New(wmpt.NewHashNode(append([]byte{}, cpRoot...), cpWeight), db)
		var err2 error
		if vp.NoPanic("C13.nopanic", func() { _, _, err2 = r2.GetBlockProof(b) }) {
			return
		}
		vp.Assert("C13.checkpoint-resolves-after-gc", err2 == nil)
		vp.Cover("C13.gc-after")
	}
	vp.Cover("C13.done")
}
