// Package c14: C14 — every stored trie node is addressed by its own hash and round-trips.
package c14

import (
	"bytes"
	"context"

	"github.com/0chain/common/core/util"

	"verifharness/mptlib"
	"verifharness/vp"
)

var Harnesses = map[string]func(){
	"H_Codec":  H_Codec,
	"H_Stores":  H_Stores,
	"H_Layered": H_Layered,
}

func hexPath(name string, maxLen int) []byte {
	hexd := []byte("0123456789abcdef")
	n := vp.Choose(name+".len", maxLen+1)
	p := make([]byte, n)
	for i := range p {
		// nibble class is enumerated over a representative subset (digit, letter, first, last)
		p[i] = hexd[[]int{0, 9, 10, 15}[vp.Choose(name+".n", 4)]]
	}
	return p
}

func optValue(name string, maxLen int) util.MPTSerializable {
	n := vp.Choose(name+".len", maxLen+1)
	if n == 0 {
		return nil
	}
	return mptlib.Val(vp.Bytes(name, n))
}

func token(i byte) []byte {
	k := make([]byte, 32)
	for j := range k {
		k[j] = i*16 + byte(j)
	}
	return k
}

func sameBytes(a, b []byte) bool { return mptlib.BytesEq(a, b) }

// roundTrip asserts decode(encode(n)) has the same hash and the same encoding.
func roundTrip(lbl string, n util.Node) {
	var enc, enc2, h, h2 []byte
	var n2 util.Node
	var err error
	if vp.NoPanic("C14.nopanic", func() {
		enc = n.Encode()
		h = n.GetHashBytes()
		n2, err = util.CreateNode(bytes.NewReader(mptlib.Cp(enc)))
	}) {
		return
	}
	vp.Assert(lbl+".decode-ok", err == nil)
	if err != nil {
		return
	}
	if vp.NoPanic("C14.nopanic", func() {
		enc2 = n2.Encode()
		h2 = n2.GetHashBytes()
	}) {
		return
	}
	vp.Assert(lbl+".same-type", n2.GetNodeType() == n.GetNodeType())
	vp.Assert(lbl+".same-encoding", sameBytes(enc, enc2))
	vp.Assert(lbl+".same-hash", bytes.Equal(h, h2)) // tokens: equal iff hashed bytes equal
	vp.Assert(lbl+".same-origin", n2.GetOrigin() == n.GetOrigin())
	vp.Assert(lbl+".same-version", n2.GetVersion() == n.GetVersion())
	if lbl == "C14.codec" {
		vp.Observe(lbl, len(enc), bytes.Equal(h, h2))
	}
}

// H_Codec: one node of a chosen kind built from symbolic fields.
func H_Codec() {
	vmax := vp.Param("vmax", 3)
	origin := util.Sequence(vp.Int64("origin"))
	version := util.Sequence(vp.Int64("nodeversion"))
	kind := vp.Choose("kind", 4)
	var n util.Node
	switch kind {
	case 0: // leaf
		prefix := hexPath("prefix", vp.Param("prefixmax", 2))
		path := hexPath("path", vp.Param("pathmax", 3))
		n = util.NewLeafNode(prefix, path, origin, optValue("v", vmax))
	case 1: // branch: child subset by mask over 4 representative slots + value
		fn := util.NewFullNode(optValue("v", vmax))
		mask := vp.Choose("mask", 16)
		slots := []byte("09af")
		for i, s := range slots {
			if mask&(1<<uint(i)) != 0 {
				fn.PutChild(s, token(byte(i+1)))
			}
		}
		n = fn
	case 2: // extension
		path := hexPath("path", vp.Param("pathmax", 3))
		vp.Assume(len(path) > 0)
		key := token(7)
		if vp.Choose("symkey", 2) == 1 {
			// raw child keys are arbitrary bytes: two of them symbolic (separator, zero, ...)
			key[0] = vp.Byte("key0")
			key[31] = vp.Byte("key31")
		}
		n = util.NewExtensionNode(path, key)
	case 3: // value node
		vn := util.NewValueNode()
		vn.SetValue(mptlib.Val(vp.Bytes("v", 1+vp.Choose("v.len", vmax))))
		n = vn
	}
	n.SetOrigin(origin)
	n.SetVersion(version)
	roundTrip("C14.codec", n)
	vp.Cover("C14.codec.done")
}

// H_Stores: after a history, every store entry is keyed by the hash of its own content,
// round-trips, and a trie re-opened on the store recomputes to the saved root.
func H_Stores() {
	store := vp.Param("store", 0)
	seed := vp.Param("seed", 0)
	k := vp.Param("k", 1)
	alpha := mptlib.Alphabet(vp.Param("alpha", 2))
	lmax := vp.Param("lmax", 4)
	version := vp.Int64("version")
	db := mptlib.NewStore(store, "c14")
	t := mptlib.NewTrie(db, version, nil)
	ref := mptlib.NewRef()
	mptlib.ApplySeed(t, ref, seed)
	// the same trie object may move on to another version before the next changes (one change
	// set then spans two versions)
	if vp.Param("bump", 0) == 1 && vp.Choose("bump", 2) == 1 {
		v2 := vp.Int64("version2")
		vp.Assume(v2 != version)
		t.SetVersion(util.Sequence(v2))
		vp.Cover("C14.two-versions")
	}
	for i := 0; i < k; i++ {
		p := mptlib.GenPath("p", alpha, lmax)
		if vp.Choose("op", 2) == 0 {
			v := mptlib.GenValue("v", 2)
			t.Insert(util.Path(mptlib.Cp(p)), mptlib.Val(v))
			ref.Put(p, v)
		} else {
			if _, err := t.Delete(util.Path(mptlib.Cp(p))); err == nil {
				ref.Del(p)
			}
		}
	}
	count := 0
	var iterErr error
	if vp.NoPanic("C14.nopanic", func() {
		iterErr = db.Iterate(context.TODO(), func(ctx context.Context, key util.Key, node util.Node) error {
			count++
			vp.Assert("C14.store.key-is-own-hash", bytes.Equal(key, node.GetHashBytes()))
			roundTrip("C14.store", node)
			return nil
		})
	}) {
		return
	}
	vp.Assert("C14.store.iterate-ok", iterErr == nil)
	vp.Observe("store-nodes", count)
	// re-open on the same store at the saved root
	t2 := mptlib.NewTrie(db, version, t.GetRoot())
	vp.NoPanic("C14.nopanic", func() { mptlib.CheckContent("C14.reopen", t2, ref) })
	// the pending changes saved to another store: every entry keyed by its own hash, and the
	// trie read back from that store alone recomputes to the saved root and reads the content
	if saveTo := vp.Param("save_to", 0); saveTo > 0 {
		target := mptlib.NewStore(map[int]int{1: 0, 2: 2}[saveTo], "c14-target")
		var serr error
		if vp.NoPanic("C14.nopanic", func() { serr = t.SaveChanges(context.Background(), target, false) }) {
			return
		}
		vp.Assert("C14.saved.ok", serr == nil)
		if vp.NoPanic("C14.nopanic", func() {
			target.Iterate(context.TODO(), func(ctx context.Context, key util.Key, node util.Node) error {
				vp.Assert("C14.saved.key-is-own-hash", bytes.Equal(key, node.GetHashBytes()))
				return nil
			})
			mptlib.CheckContent("C14.saved-reopen", mptlib.NewTrie(target, version, t.GetRoot()), ref)
		}) {
			return
		}
		vp.Cover("C14.saved")
	}
	vp.Cover("C14.stores.done")
}

// H_Layered: a saved state in a base store, then a fresh trie (fresh cache) over a layered
// store on top of it performs k operations. The base store must still hold every node
// under the hash of its own content and read back the saved content at the saved root;
// the upper level is audited too.
func H_Layered() {
	seed := vp.Param("seed", 3)
	k := vp.Param("k", 1)
	alpha := mptlib.Alphabet(vp.Param("alpha", 2))
	lmax := vp.Param("lmax", 4)
	version := vp.Int64("version")
	base := util.NewMemoryNodeDB()
	t0 := mptlib.NewTrie(base, version, nil)
	ref0 := mptlib.NewRef()
	mptlib.ApplySeed(t0, ref0, seed)
	root0 := mptlib.Cp(t0.GetRoot())
	v2 := version
	if vp.Choose("other-version", 2) == 1 {
		v2 = vp.Int64("version2")
		vp.Assume(v2 != version)
	}
	lndb := util.NewLevelNodeDB(util.NewMemoryNodeDB(), base, false)
	t1 := mptlib.NewTrie(lndb, v2, root0)
	ref1 := ref0.Clone()
	for i := 0; i < k; i++ {
		p := mptlib.GenPath("p", alpha, lmax)
		if vp.Choose("op", 2) == 0 {
			v := mptlib.GenValue("v", 1)
			if vp.NoPanic("C14.nopanic", func() { t1.Insert(util.Path(mptlib.Cp(p)), mptlib.Val(v)) }) {
				return
			}
			ref1.Put(p, v)
		} else {
			var err error
			if vp.NoPanic("C14.nopanic", func() { _, err = t1.Delete(util.Path(mptlib.Cp(p))) }) {
				return
			}
			if err == nil {
				ref1.Del(p)
			}
		}
	}
	audit := func(lbl string, db util.NodeDB) bool {
		var ierr error
		pan := vp.NoPanic("C14.nopanic", func() {
			ierr = db.Iterate(context.TODO(), func(ctx context.Context, key util.Key, node util.Node) error {
				vp.Assert(lbl+".key-is-own-hash", bytes.Equal(key, node.GetHashBytes()))
				roundTrip(lbl, node)
				return nil
			})
		})
		vp.Assert(lbl+".iterate-ok", ierr == nil)
		return !pan
	}
	if !audit("C14.base", base) || !audit("C14.level", lndb.GetCurrent()) {
		return
	}
	// the saved state recomputes to its root and reads its content from the base store alone
	vp.NoPanic("C14.nopanic", func() { mptlib.CheckContent("C14.base-reopen", mptlib.NewTrie(base, version, root0), ref0) })
	vp.NoPanic("C14.nopanic", func() { mptlib.CheckContent("C14.level-view", t1, ref1) })
	vp.Cover("C14.layered.done")
}
