// Package c08: C08 — cache answers stay correct under concurrent readers and committers.
package c08

import (
	"sync"

	"github.com/0chain/common/core/statecache"

	"verifharness/vp"
)

var Harnesses = map[string]func(){
	"H_Concurrent": H_Concurrent,
}

type MV struct{ X uint64 }

func (m *MV) Clone() statecache.Value { return &MV{m.X} }
func (m *MV) CopyFrom(v interface{}) bool {
	o, ok := v.(*MV)
	if !ok {
		return false
	}
	m.X = o.X
	return true
}

const key = "k"

const (
	wNone = iota
	wSet
	wRemove
)

// H_Concurrent: committed block A (writes k), block B on A being committed by goroutine G0
// while reader goroutines look k up at A, at B, or at C (a child of B committed earlier).
// Every interleaving at the granularity of the repository's yield hook (one shared-map
// access per step) is explored; the happens-before monitor watches for data races.
func H_Concurrent() {
	readers := vp.Param("readers", 1)
	lookups := vp.Param("lookups", 1)
	vp.ExploreSchedules(vp.Param("preempt", -1))
	vp.YieldAtLocks(false)
	vp.RaceDetect(true)

	sc := statecache.NewStateCache()
	vA := vp.Uint64("vA")
	a := statecache.NewBlockCache(sc, statecache.Block{Round: 1, Hash: "A", PrevHash: "genesis"})
	a.Set(key, &MV{vA})
	a.Commit()
	// optional child C of B, committed before B (it does not write k)
	withC := vp.Choose("withC", 2) == 1
	if withC {
		c := statecache.NewBlockCache(sc, statecache.Block{Round: 3, Hash: "C", PrevHash: "B"})
		c.Set("other", &MV{1})
		c.Commit()
	}
	bw := vp.Choose("bwrite", 3)
	vB := vp.Uint64("vB")
	b := statecache.NewBlockCache(sc, statecache.Block{Round: 2, Hash: "B", PrevHash: "A"})
	switch bw {
	case wSet:
		b.Set(key, &MV{vB})
	case wRemove:
		tc := statecache.NewTransactionCache(b)
		tc.Remove(key)
		tc.Commit()
	}
	committed := false // set after B's Commit has returned
	var hmu sync.Mutex  // protects the harness's own bookkeeping (committed, results)

	// tree-determined value of k at a block
	want := func(at string) (int, uint64) {
		if at == "A" {
			return wSet, vA
		}
		// B and its child C
		switch bw {
		case wSet:
			return wSet, vB
		case wRemove:
			return wRemove, 0
		}
		return wSet, vA
	}

	type result struct {
		at          string
		hit         bool
		x           uint64
		afterCommit bool
	}
	var results []result
	blocks := []string{"A", "B"}
	if withC {
		blocks = append(blocks, "C")
	}
	vp.Go(func() {
		b.Commit()
		hmu.Lock()
		committed = true
		hmu.Unlock()
	})
	for r := 0; r < readers; r++ {
		vp.Go(func() {
			for l := 0; l < lookups; l++ {
				at := blocks[vp.Choose("at", len(blocks))]
				hmu.Lock()
				after := committed
				hmu.Unlock()
				v, hit := statecache.NewQueryBlockCache(sc, at).Get(key)
				res := result{at: at, hit: hit, afterCommit: after}
				if hit {
					if mv, ok := v.(*MV); ok && mv != nil {
						res.x = mv.X
					}
				}
				hmu.Lock()
				results = append(results, res)
				hmu.Unlock()
			}
		})
	}
	vp.Wait()
	for _, r := range results {
		w, wv := want(r.at)
		if r.hit {
			vp.Assert("C08.hit-only-if-tree-has-value", w == wSet)
			vp.Assert("C08.hit-equals-tree-determined-value", r.x == wv)
			vp.Cover("C08.hit")
		} else {
			// a miss is allowed unless the lookup at B started after B's commit had returned
			if r.at == "B" && r.afterCommit && w == wSet {
				vp.Assert("C08.committed-write-found", false)
			}
			vp.Cover("C08.miss")
		}
	}
	// after everything finished, the committed state answers exactly
	v, hit := statecache.NewQueryBlockCache(sc, "B").Get(key)
	w, wv := want("B")
	vp.Assert("C08.final-hit-iff-value", hit == (w == wSet))
	if hit {
		if mv, ok := v.(*MV); ok && mv != nil {
			vp.Assert("C08.final-value", mv.X == wv)
		}
	}
	vp.Cover("C08.done")
}
