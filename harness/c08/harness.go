// Package c08: C08 — cache answers stay correct under concurrent readers and committers.
package c08

import (
	"sync"

	"github.com/0chain/common/core/statecache"

	"verifharness/vp"
)

var Harnesses = map[string]func(){
	"H_Concurrent": H_Concurrent,
	"H_Committers": H_Committers,
}

type MV struct{ X uint64 }

func (m *MV) Clone() statecache.Value { return &MV{m.X} }
func (m *MV) CopyFrom(v interface{}) bool {
	o, ok := v.(*MV)
	if !ok {
		return false
	}
	m.X = o.X
	return true
}

const key = "k"

const (
	wNone = iota
	wSet
	wRemove
)

// H_Concurrent: committed block A (writes k), block B on A being committed by goroutine G0
// while reader goroutines look k up at A, at B, or at C (a child of B committed earlier).
// Every interleaving at the granularity of the repository's yield hook (one shared-map
// access per step) is explored; the happens-before monitor watches for data races.
func H_Concurrent() {
	readers := vp.Param("readers", 1)
	lookups := vp.Param("lookups", 1)
	vp.ExploreSchedules(vp.Param("preempt", -1))
	vp.YieldAtLocks(false)
	vp.RaceDetect(true)

	sc := statecache.NewStateCache()
	vA := vp.Uint64("vA")
	a := statecache.NewBlockCache(sc, statecache.Block{Round: 1, Hash: "A", PrevHash: "genesis"})
	a.Set(key, &MV{vA})
	a.Commit()
	// optional child C of B, committed before B (it does not write k)
	withC := vp.Choose("withC", 2) == 1
	if withC {
		c := statecache.NewBlockCache(sc, statecache.Block{Round: 3, Hash: "C", PrevHash: "B"})
		c.Set("other", &MV{1})
		c.Commit()
	}
	bw := vp.Choose("bwrite", 3)
	vB := vp.Uint64("vB")
	b := statecache.NewBlockCache(sc, statecache.Block{Round: 2, Hash: "B", PrevHash: "A"})
	switch bw {
	case wSet:
		b.Set(key, &MV{vB})
	case wRemove:
		tc := statecache.NewTransactionCache(b)
		tc.Remove(key)
		tc.Commit()
	}
	committed := false // set after B's Commit has returned
	var hmu sync.Mutex // protects the harness's own bookkeeping (committed, results)

	// tree-determined value of k at a block
	want := func(at string) (int, uint64) {
		if at == "A" {
			return wSet, vA
		}
		// B and its child C
		switch bw {
		case wSet:
			return wSet, vB
		case wRemove:
			return wRemove, 0
		}
		return wSet, vA
	}

	type result struct {
		at          string
		hit         bool
		x           uint64
		afterCommit bool
	}
	var results []result
	blocks := []string{"A", "B"}
	if withC {
		blocks = append(blocks, "C")
	}
	vp.Go(func() {
		b.Commit()
		hmu.Lock()
		committed = true
		hmu.Unlock()
	})
	for r := 0; r < readers; r++ {
		vp.Go(func() {
			for l := 0; l < lookups; l++ {
				at := blocks[vp.Choose("at", len(blocks))]
				hmu.Lock()
				after := committed
				hmu.Unlock()
				// a query cache at the block, or (at B) the committing block's own handle
				var v statecache.Value
				var hit bool
				if vp.Param("vias", 1) == 2 && at == "B" && vp.Choose("via", 2) == 1 {
					v, hit = b.Get(key)
				} else {
					v, hit = statecache.NewQueryBlockCache(sc, at).Get(key)
				}
				res := result{at: at, hit: hit, afterCommit: after}
				if hit {
					if mv, ok := v.(*MV); ok && mv != nil {
						res.x = mv.X
					}
				}
				hmu.Lock()
				results = append(results, res)
				hmu.Unlock()
			}
		})
	}
	vp.Wait()
	for _, r := range results {
		w, wv := want(r.at)
		if r.hit {
			vp.Assert("C08.hit-only-if-tree-has-value", w == wSet)
			vp.Assert("C08.hit-equals-tree-determined-value", r.x == wv)
			vp.Cover("C08.hit")
		} else {
			// a miss is allowed unless the lookup at B started after B's commit had returned
			if r.at == "B" && r.afterCommit && w == wSet {
				vp.Assert("C08.committed-write-found", false)
			}
			vp.Cover("C08.miss")
		}
	}
	// after everything finished, the committed state answers exactly
	v, hit := statecache.NewQueryBlockCache(sc, "B").Get(key)
	w, wv := want("B")
	vp.Assert("C08.final-hit-iff-value", hit == (w == wSet))
	if hit {
		if mv, ok := v.(*MV); ok && mv != nil {
			vp.Assert("C08.final-value", mv.X == wv)
		}
	}
	vp.Cover("C08.done")
}

// H_Committers: two blocks are committed concurrently by two goroutines (B1 on A; B2 either on
// B1 or a sibling on A), each writing k — a key that is new to the shared cache, or one A had
// already written — and, optionally, a reader looks k up meanwhile.  Commits are serialised by
// the state-cache lock; every schedule the lock admits is explored at hook granularity.  Once
// both commits have returned, each block's own write must be found at that block.
func H_Committers() {
	vp.ExploreSchedules(vp.Param("preempt", -1))
	vp.YieldAtLocks(false)
	vp.RaceDetect(true)

	sc := statecache.NewStateCache()
	aWrites := vp.Choose("aWrites", 2) == 1
	vA := vp.Uint64("vA")
	a := statecache.NewBlockCache(sc, statecache.Block{Round: 1, Hash: "A", PrevHash: "genesis"})
	a.Set("other", &MV{7})
	if aWrites {
		a.Set(key, &MV{vA})
	}
	a.Commit()
	chain := vp.Choose("chain", 2) == 1 // B2 on B1, or B2 a sibling of B1
	v1, v2 := vp.Uint64("v1"), vp.Uint64("v2")
	b1 := statecache.NewBlockCache(sc, statecache.Block{Round: 2, Hash: "B1", PrevHash: "A"})
	b1.Set(key, &MV{v1})
	prev2 := "A"
	if chain {
		prev2 = "B1"
	}
	b2 := statecache.NewBlockCache(sc, statecache.Block{Round: 3, Hash: "B2", PrevHash: prev2})
	b2.Set(key, &MV{v2})

	want := map[string]uint64{"B1": v1, "B2": v2}
	type result struct {
		at  string
		hit bool
		x   uint64
	}
	var results []result
	var hmu sync.Mutex
	vp.Go(func() { b1.Commit() })
	vp.Go(func() { b2.Commit() })
	if vp.Param("reader", 0) == 1 {
		vp.Go(func() {
			at := []string{"B1", "B2"}[vp.Choose("at", 2)]
			v, hit := statecache.NewQueryBlockCache(sc, at).Get(key)
			res := result{at: at, hit: hit}
			if hit {
				if mv, ok := v.(*MV); ok && mv != nil {
					res.x = mv.X
				}
			}
			hmu.Lock()
			results = append(results, res)
			hmu.Unlock()
		})
	}
	vp.Wait()
	for _, r := range results {
		if r.hit {
			// B2 on a not yet published B1 may only miss, never answer with another block's value
			vp.Assert("C08.committers.hit-equals-tree-determined-value", r.x == want[r.at])
			vp.Cover("C08.committers.reader-hit")
		}
	}
	for _, at := range []string{"B1", "B2"} {
		v, hit := statecache.NewQueryBlockCache(sc, at).Get(key)
		vp.Assert("C08.committers.committed-write-found", hit)
		if hit {
			mv, ok := v.(*MV)
			vp.Assert("C08.committers.value-type", ok && mv != nil)
			if ok && mv != nil {
				vp.Assert("C08.committers.hit-equals-tree-determined-value", mv.X == want[at])
			}
		}
	}
	vp.Cover("C08.committers.done")
}
