//go:build verif

package c08

import (
	"github.com/0chain/common/core/statecache"

	"verifharness/vp"
)

func init() { statecache.VerifYield = vp.Yield }
