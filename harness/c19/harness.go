// Package c19: C19 — Merkle tree paths prove exactly their own leaf.
package c19

import (
	"strconv"

	"github.com/0chain/common/core/encryption"
	"github.com/0chain/common/core/util"

	"verifharness/vp"
)

var Harnesses = map[string]func(){
	"H_Paths": H_Paths,
}

type leaf string

func (l leaf) GetHash() string      { return string(l) }
func (l leaf) GetHashBytes() []byte { return util.HashStringToBytes(string(l)) }

func mkLeaves(n int, dup int) []util.Hashable {
	ls := make([]util.Hashable, n)
	for i := range ls {
		ls[i] = leaf(encryption.Hash("leaf-" + strconv.Itoa(i)))
	}
	if dup == 1 && n >= 2 {
		ls[n-1] = ls[0] // two equal leaves
	}
	return ls
}

func sameStrs(a, b []string) bool {
	if len(a) != len(b) {
		return false
	}
	for i := range a {
		if a[i] != b[i] {
			return false
		}
	}
	return true
}

// H_Paths: leaf count n and index chosen (enumerated), the competing leaf hash fully symbolic.
func H_Paths() {
	nmax := vp.Param("nmax", 24)
	nmin := vp.Param("nmin", 1)
	dup := vp.Param("dup", 0)
	n := nmin + vp.Choose("n", nmax-nmin+1)
	idx := vp.Choose("idx", n)
	leaves := mkLeaves(n, dup)
	var mt util.MerkleTreeI = &util.MerkleTree{}
	var p *util.MTPath
	var root string
	// the tree object may have been used before for another (larger or smaller) leaf list
	switch vp.Choose("reused", vp.Param("reuse", 3)) {
	case 1:
		mt.ComputeTree(mkLeaves(n+1, 0))
	case 2:
		mt.ComputeTree(mkLeaves(2*n+1, 0))
	}
	if vp.NoPanic("C19.nopanic", func() {
		mt.ComputeTree(leaves)
		root = mt.GetRoot()
		p = mt.GetPathByIndex(idx)
	}) {
		return
	}
	own := leaves[idx].GetHash()
	vp.Assert("C19.path-by-index-verifies", util.VerifyMerklePath(own, p, root))
	vp.Assert("C19.verifypath", mt.VerifyPath(leaves[idx], p))
	// by leaf lookup (with equal leaves the first position is found; its path must verify too)
	var p2 *util.MTPath
	if vp.NoPanic("C19.nopanic", func() { p2 = mt.GetPath(leaves[idx]) }) {
		return
	}
	vp.Assert("C19.path-by-lookup-verifies", util.VerifyMerklePath(own, p2, root))
	if dup == 0 {
		vp.Assert("C19.lookup-equals-index", p2.LeafIndex == idx && sameStrs(p2.Nodes, p.Nodes))
	}
	vp.Observe("root", root, len(p.Nodes), p.LeafIndex)

	// any other leaf hash offered with the same path must be rejected
	olen := []int{64, 0, 63, 65}[vp.Choose("olen", vp.Param("olens", 1))]
	other := string(vp.Bytes("other", olen))
	vp.Assume(other != own)
	var okOther bool
	if vp.NoPanic("C19.nopanic", func() { okOther = util.VerifyMerklePath(other, p, root) }) {
		return
	}
	vp.Observe("other-verifies", okOther)
	vp.Assert("C19.other-leaf-rejected", !okOther)

	// export / import
	mt2 := &util.MerkleTree{}
	var err error
	if vp.NoPanic("C19.nopanic", func() { err = mt2.SetTree(n, mt.GetTree()) }) {
		return
	}
	vp.Assert("C19.settree-ok", err == nil)
	if err == nil {
		vp.Assert("C19.settree-same-root", mt2.GetRoot() == root)
		q := mt2.GetPathByIndex(idx)
		vp.Assert("C19.settree-same-path", q.LeafIndex == p.LeafIndex && sameStrs(q.Nodes, p.Nodes))
	}
	// a rejected load must leave the loaded tree intact: paths still verify afterwards
	if vp.NoPanic("C19.nopanic", func() {
		vp.Assert("C19.settree-wrong-size-rejected", mt.SetTree(n+vp.Param("wrongdelta", 5), mt.GetTree()) != nil)
		q := mt.GetPathByIndex(idx)
		vp.Assert("C19.rejected-load-leaves-tree-intact", mt.GetRoot() == root && util.VerifyMerklePath(own, q, root))
	}) {
		return
	}
	// a path stays valid while the tree hands out other paths (every path owns its nodes)
	if n >= 3 {
		j := (idx + 2) % n
		var pj *util.MTPath
		if vp.NoPanic("C19.nopanic", func() { pj = mt.GetPathByIndex(j) }) {
			return
		}
		vp.Assert("C19.earlier-path-still-verifies", util.VerifyMerklePath(own, p, root))
		vp.Assert("C19.path-by-index-verifies", util.VerifyMerklePath(leaves[j].GetHash(), pj, root))
	}
	mt3 := &util.MerkleTree{}
	vp.Assert("C19.settree-wrong-size-rejected", mt3.SetTree(n+1, mt.GetTree()) != nil)
	if n > 1 {
		vp.Assert("C19.settree-wrong-size-rejected", mt3.SetTree(n-1, mt.GetTree()) != nil)
	}
	vp.Cover("C19.done")
}
