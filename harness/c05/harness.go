// Package c05: C05 — dead-node records and pruning never remove live state.
package c05

import (
	"bytes"
	"context"

	"github.com/0chain/common/core/util"

	"verifharness/mptlib"
	"verifharness/vp"
)

var Harnesses = map[string]func(){
	"H_Prune": H_Prune,
}

func reachableKeys(rs *mptlib.Rounds, j int) map[string]bool {
	m := map[string]bool{}
	for _, n := range mptlib.Reachable(rs.PNDB, rs.Roots[j]) {
		m[string(n.Key)] = true
	}
	return m
}

// H_Prune: R rounds (transactions, save, record dead nodes); dead sets must not
// intersect anything reachable from this or a later root; prune below a chosen version,
// crashed at every point of its write stream and re-run; retained roots stay readable.
func H_Prune() {
	seed := vp.Param("seed", 2)
	R := vp.Param("rounds", 2)
	ntx := vp.Param("ntx", 1)
	alpha := mptlib.Alphabet(vp.Param("alpha", 2))
	lmax := vp.Param("lmax", 4)
	rs := mptlib.NewRounds("C05", "c05", seed, alpha, lmax)
	for r := 1; r <= R; r++ {
		txns := rs.ChooseTxns("r", ntx)
		b, ref, ok := rs.Execute(rs.Base+int64(r), txns)
		if !ok {
			return
		}
		if !rs.Save(b, ref) {
			return
		}
		var err error
		if vp.NoPanic("C05.nopanic", func() { err = rs.PNDB.RecordDeadNodes(rs.Deads[r], rs.Base+int64(r)) }) {
			return
		}
		vp.Assert("C05.record-ok", err == nil)
	}
	// dead_r ∩ reachable(root_j) = ∅ for all j >= r
	for r := 1; r <= R; r++ {
		for j := r; j <= R; j++ {
			reach := reachableKeys(rs, j)
			for _, d := range rs.Deads[r] {
				vp.Assert("C05.dead-not-reachable-later", !reach[string(d.GetHashBytes())])
			}
		}
	}
	// everything reachable from retained roots, before pruning
	v := 1 + vp.Choose("prune-version", R+1) // 1..R+1
	keep := map[string]bool{}
	for j := v; j <= R; j++ {
		for k := range reachableKeys(rs, j) {
			keep[k] = true
		}
	}
	deadBelow := map[string]bool{}
	for r := 1; r < v && r <= R; r++ {
		for _, d := range rs.Deads[r] {
			deadBelow[string(d.GetHashBytes())] = true
		}
	}
	before := rs.Store.VerifKeys(0)

	writes := 2 // one batch deleting nodes, one batch deleting the records
	n := vp.Choose("crash", writes+1)
	var err error
	if n < writes {
		rs.Store.VerifCrashAfter(n)
		if vp.NoPanic("C05.nopanic", func() { rs.PNDB.PruneBelowVersion(context.Background(), rs.Base+int64(v)) }) {
			return
		}
		rs.Store.VerifNoCrash()
		for j := v; j <= R; j++ {
			if !rs.CheckSaved("C05.after-crashed-prune", j) {
				return
			}
		}
		vp.Cover("C05.crashed")
	}
	if vp.NoPanic("C05.nopanic", func() { err = rs.PNDB.PruneBelowVersion(context.Background(), rs.Base+int64(v)) }) {
		return
	}
	vp.Assert("C05.prune-ok", err == nil)
	for j := v; j <= R; j++ {
		if !rs.CheckSaved("C05.after-prune", j) {
			return
		}
	}
	// only keys recorded dead in rounds below v disappeared; nothing live was deleted
	after := map[string]bool{}
	for _, k := range rs.Store.VerifKeys(0) {
		after[string(k)] = true
	}
	removed := 0
	for _, k := range before {
		if !after[string(k)] {
			removed++
			vp.Assert("C05.only-dead-removed", deadBelow[string(k)])
			vp.Assert("C05.live-kept", !keep[string(k)])
		}
	}
	_ = bytes.Equal
	_ = util.ErrNodeNotFound
	vp.Observe("pruned", v, removed)
	vp.Cover("C05.done")
}
