// Package c06: C06 — the state cache never returns a wrong value for a block.
package c06

import (
	"strconv"

	"github.com/0chain/common/core/statecache"

	"verifharness/vp"
)

var Harnesses = map[string]func(){
	"H_Cache": H_Cache,
}

// MV is a mutable cache value with a deep Clone.
type MV struct{ X uint64 }

func (m *MV) Clone() statecache.Value { return &MV{m.X} }
func (m *MV) CopyFrom(v interface{}) bool {
	o, ok := v.(*MV)
	if !ok {
		return false
	}
	m.X = o.X
	return true
}

const (
	wNone = iota
	wSet
	wRemove
)

type block struct {
	hash   string
	parent int // index of the parent block, -1 = unknown hash (gap)
	bc     *statecache.BlockCache
	w      []int    // per key: wNone/wSet/wRemove
	v      []uint64 // per key: value written
	done   bool     // committed
}

// oracle: nearest writer of key k on b's own ancestor chain.
func oracle(bs []*block, b, k int) (int, uint64) {
	for i := b; i >= 0; i = bs[i].parent {
		if bs[i].w[k] != wNone {
			return bs[i].w[k], bs[i].v[k]
		}
	}
	return wNone, 0
}

func H_Cache() {
	n := vp.Param("blocks", 3)
	nk := vp.Param("keys", 1)
	m := vp.Param("lookups", 2)
	shape := vp.Param("shape", 0) // 0: any parent assignment incl. gaps, 1: straight chain
	order := vp.Param("order", 0) // 0: commit in creation order or reversed, 1: any interleaving of commits (in creation order) and lookups
	keys := make([]string, nk)
	for i := range keys {
		keys[i] = "k" + strconv.Itoa(i)
	}
	// eviction runs shrink the per-key map (default 200 blocks) through the verif hook; the
	// known-finding region is "the key's map may have been over capacity": more blocks than its
	// capacity had an entry for the key (a committed write or removal, or a lookup that may have
	// memoised an ancestor's entry)
	percap := vp.Param("percap", 0)
	setPerKeyCap(percap)
	entries := make([][]bool, nk) // per key: blocks that may have an entry
	for k := range entries {
		entries[k] = make([]bool, n)
	}
	over := func(k int) bool {
		if percap == 0 {
			return false
		}
		c := 0
		for _, e := range entries[k] {
			if e {
				c++
			}
		}
		return c > percap
	}
	sc := statecache.NewStateCache()
	bs := make([]*block, n)
	for i := 0; i < n; i++ {
		b := &block{hash: "h" + strconv.Itoa(i), parent: -1, w: make([]int, nk), v: make([]uint64, nk)}
		if i > 0 {
			if shape == 1 {
				b.parent = i - 1
			} else {
				p := vp.Choose("parent", i+1) // i = gap
				if p < i {
					b.parent = p
				}
			}
		}
		prev := "gap" + strconv.Itoa(i)
		if b.parent >= 0 {
			prev = bs[b.parent].hash
		}
		b.bc = statecache.NewBlockCache(sc, statecache.Block{Round: int64(i), Hash: b.hash, PrevHash: prev})
		tc := statecache.NewTransactionCache(b.bc)
		for k := 0; k < nk; k++ {
			b.w[k] = vp.Choose("write", 3)
			switch b.w[k] {
			case wSet:
				b.v[k] = vp.Uint64("v")
				tc.Set(keys[k], &MV{b.v[k]})
			case wRemove:
				tc.Remove(keys[k])
			}
		}
		tc.Commit()
		bs[i] = b
	}

	lookup := func() bool {
		b := vp.Choose("at", n)
		k := vp.Choose("key", nk)
		via := vp.Choose("via", vp.Param("vias", 5))
		var got statecache.Value
		var hit bool
		if vp.NoPanic("C06.nopanic", func() {
			switch via {
			case 0:
				got, hit = statecache.NewQueryBlockCache(sc, bs[b].hash).Get(keys[k])
			case 1:
				nb := statecache.NewBlockCache(sc, statecache.Block{Round: 99, Hash: "probe", PrevHash: bs[b].hash})
				got, hit = nb.Get(keys[k])
			case 2:
				nb := statecache.NewBlockCache(sc, statecache.Block{Round: 99, Hash: "probe", PrevHash: bs[b].hash})
				got, hit = statecache.NewTransactionCache(nb).Get(keys[k])
			case 3:
				// the block's own handle, before or after its commit
				got, hit = bs[b].bc.Get(keys[k])
			case 4:
				got, hit = statecache.NewTransactionCache(bs[b].bc).Get(keys[k])
			}
		}) {
			return false
		}
		ow, ov := oracle(bs, b, k)
		entries[k][b] = true
		evicted := over(k)
		if evicted {
			vp.Cover("C06.over-capacity")
		}
		vp.Known("C06.hit-only-if-written-on-chain", "per-key-map-over-capacity", evicted)
		vp.Known("C06.hit-value-is-nearest-ancestor-write", "per-key-map-over-capacity", evicted)
		if hit {
			mv, ok := got.(*MV)
			vp.Assert("C06.hit-has-value", ok && mv != nil)
			vp.Assert("C06.hit-only-if-written-on-chain", ow == wSet)
			if ok && mv != nil {
				vp.Assert("C06.hit-value-is-nearest-ancestor-write", mv.X == ov)
				vp.Observe("hit", b, k, via, mv.X)
				// callers own what they get: mutating it must never influence later answers
				mv.X = mv.X + 1
			}
			vp.Cover("C06.hit")
		} else {
			vp.Observe("miss", b, k, via)
			vp.Cover("C06.miss")
		}
		return true
	}

	if order == 0 {
		rev := vp.Choose("reverse", 2) == 1
		for i := 0; i < n; i++ {
			j := i
			if rev {
				j = n - 1 - i
			}
			if vp.NoPanic("C06.nopanic", func() { bs[j].bc.Commit() }) {
				return
			}
			bs[j].done = true
			for k := 0; k < nk; k++ {
				if bs[j].w[k] != wNone {
					entries[k][j] = true
				}
			}
		}
		for l := 0; l < m; l++ {
			if !lookup() {
				return
			}
		}
	} else {
		next, left := 0, m
		for next < n || left > 0 {
			doCommit := next < n
			if next < n && left > 0 {
				doCommit = vp.Choose("step", 2) == 0
			}
			if doCommit {
				if vp.NoPanic("C06.nopanic", func() { bs[next].bc.Commit() }) {
					return
				}
				bs[next].done = true
				for k := 0; k < nk; k++ {
					if bs[next].w[k] != wNone {
						entries[k][next] = true
					}
				}
				next++
			} else {
				if !lookup() {
					return
				}
				left--
			}
		}
	}
	vp.Cover("C06.done")
}
