//go:build verif

package c06

import "github.com/0chain/common/core/statecache"

// setPerKeyCap shrinks the per-key block maps the state cache creates from now on (0 = default 200).
func setPerKeyCap(n int) { statecache.VerifPerKeyCap = n }
