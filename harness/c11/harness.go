// Package c11: C11 — a committed weighted trie is recoverable; garbage collection keeps live nodes.
package c11

import (
	"bytes"

	"github.com/0chain/common/core/util/wmpt"

	"verifharness/vp"
	"verifharness/wmptlib"
)

var Harnesses = map[string]func(){
	"H_Durable": H_Durable,
	"H_Windows": H_Windows,
}

var levels = []int{0, 1, 64}

// checkReopened: a trie reopened from just (root hash, weight) on the same storage must be
// observationally identical to the committed state: weight, owner, value and a verifying
// proof for every block (block number symbolic: every owner is explored).
func checkReopened(lbl string, db *wmptlib.MemStore, root []byte, weight uint64, ref *wmptlib.Ref, kf1, kf2 bool) bool {
	// known-finding regions (history predicates, see known_findings.json)
	for _, l := range []string{".weight", ".every-node-resolves", ".owner-live", ".owner", ".proof-verifies", ".value"} {
		vp.Known(lbl+l, "root-read-before-commit", kf1)
		vp.Known(lbl+l, "gc-pass-over-uncommitted-changes", kf2)
	}
	es := ref.Sorted()
	if len(es) == 0 {
		return true
	}
	r := wmpt.New(wmpt.NewHashNode(append([]byte{}, root...), weight), db)
	vp.Assert(lbl+".weight", r.Weight() == ref.Total())
	b := vp.Uint64("block")
	vp.Assume(b >= 1)
	vp.Assume(b <= ref.Total())
	var key, proof []byte
	var err error
	if vp.NoPanic("C11.nopanic", func() { key, proof, err = r.GetBlockProof(b) }) {
		return false
	}
	vp.Assert(lbl+".every-node-resolves", err == nil)
	if err != nil {
		return true
	}
	owner := -1
	for i, e := range es {
		if bytes.Equal(e.Key, key) {
			owner = i
		}
	}
	vp.Assert(lbl+".owner-live", owner >= 0)
	if owner >= 0 {
		vp.Assert(lbl+".owner", wmptlib.OwnerIs(es, owner, b))
	}
	var hash, val []byte
	if vp.NoPanic("C11.nopanic", func() { hash, val, err = wmpt.New(nil, nil).VerifyBlockProof(b, proof) }) {
		return false
	}
	vp.Assert(lbl+".proof-verifies", err == nil && bytes.Equal(hash, root))
	if err == nil && owner >= 0 {
		vp.Assert(lbl+".value", wmptlib.BytesEq(val, es[owner].Value))
	}
	return true
}

// H_Durable: histories over update / delete / re-add / root-hash read / commit(level) /
// garbage collection; after every storage-mutating step the last durably committed root
// must still resolve completely from storage alone.
func H_Durable() {
	k := vp.Param("k", 4)
	npool := vp.Param("pool", 3)
	prefix := vp.Param("prefix", 0) // forced: update keys 0..prefix-1 then commit(level0)
	opsMask := vp.Param("ops", 31)
	pool := wmptlib.Pool()
	pool = [][]byte{pool[0], pool[1], pool[4], pool[3]}[:npool]
	db := wmptlib.NewMemStore()
	t := wmpt.New(nil, db)
	ref := wmptlib.NewRef()
	var durRoot []byte
	var durWeight uint64
	uncommitted := false   // mutations since the last commit
	rootReadDirty := false // the root hash was read while uncommitted mutations existed (since the last commit)
	durKF1 := false        // ... and that was the case for the commit that produced the durable root
	gcDirty := false       // a garbage-collection pass ran while uncommitted mutations existed (since the durable commit)
	durRef := wmptlib.NewRef()
	haveDurable := false

	update := func(i int) bool {
		pb := vp.Byte("payload")
		w := uint64(pb) + 1
		val := []byte{pb, 0x5a}
		var err error
		if vp.NoPanic("C11.nopanic", func() { err = t.Update(pool[i], val, w) }) {
			return false
		}
		// inside the known regions the live trie may hold references to nodes that were never
		// saved or were deleted: a later mutation that has to load them fails
		vp.Known("C11.update-ok", "root-read-before-commit", durKF1)
		vp.Known("C11.update-ok", "gc-pass-over-uncommitted-changes", gcDirty)
		vp.Assert("C11.update-ok", err == nil)
		ref.Put(pool[i], val, w)
		uncommitted = true
		return true
	}
	commit := func(lvl int) bool {
		var err error
		if vp.NoPanic("C11.nopanic", func() {
			b, e := t.Commit(lvl)
			err = e
			if e == nil {
				err = b.Commit(false)
			}
		}) {
			return false
		}
		vp.Assert("C11.commit-ok", err == nil)
		var root []byte
		if vp.NoPanic("C11.nopanic", func() { root = append([]byte{}, t.Root()...) }) {
			return false
		}
		durRoot, durWeight, durRef, haveDurable = root, t.Weight(), ref.Clone(), true
		// the damage of a root read before a commit persists (the nodes whose dirty flags it cleared
		// stay unsaved until they are rewritten): the region is sticky
		durKF1 = durKF1 || rootReadDirty
		uncommitted, rootReadDirty = false, false
		return true
	}
	for i := 0; i < prefix; i++ {
		if !update(i) {
			return
		}
	}
	if prefix > 0 {
		if !commit(levels[vp.Choose("plevel", len(levels))]) {
			return
		}
	}
	var kinds []int
	for b := 0; b < 5; b++ {
		if opsMask&(1<<uint(b)) != 0 {
			kinds = append(kinds, b)
		}
	}
	for s := 0; s < k; s++ {
		op := kinds[vp.Choose("op", len(kinds))]
		mutatedStorage := false
		switch op {
		case 0:
			if !update(vp.Choose("key", npool)) {
				return
			}
		case 1:
			i := vp.Choose("key", npool)
			if !ref.Has(pool[i]) {
				vp.Assume(false)
			}
			var err error
			if vp.NoPanic("C11.nopanic", func() { err = t.Update(pool[i], nil, 0) }) {
				return
			}
			vp.Known("C11.delete-ok", "root-read-before-commit", durKF1)
			vp.Known("C11.delete-ok", "gc-pass-over-uncommitted-changes", gcDirty)
			vp.Assert("C11.delete-ok", err == nil)
			ref.Del(pool[i])
			uncommitted = true
		case 2: // reading the root hash is allowed at any time
			if vp.NoPanic("C11.nopanic", func() { _ = t.Root() }) {
				return
			}
			if uncommitted {
				rootReadDirty = true
			}
			vp.Cover("C11.root-read")
		case 3:
			if !commit(levels[vp.Choose("level", len(levels))]) {
				return
			}
			mutatedStorage = true
			vp.Cover("C11.commit")
		case 4:
			var err error
			if vp.NoPanic("C11.nopanic", func() { err = t.DeleteNodes() }) {
				return
			}
			vp.Assert("C11.gc-ok", err == nil)
			mutatedStorage = true
			if uncommitted {
				gcDirty = true
			}
			vp.Cover("C11.gc")
		}
		if mutatedStorage && haveDurable {
			if !checkReopened("C11.durable", db, durRoot, durWeight, durRef, durKF1, gcDirty) {
				return
			}
		}
	}
	vp.Cover("C11.done")
}

// checkReopenedAll probes the reopened trie with the first and last block of every owner
// (blocks are expressions over the symbolic weights: no fork per owner).
func checkReopenedAll(lbl string, db *wmptlib.MemStore, root []byte, weight uint64, ref *wmptlib.Ref, dup bool) bool {
	for _, l := range []string{".weight", ".every-node-resolves", ".owner", ".proof-verifies", ".value"} {
		vp.Known(lbl+l, "two-keys-with-identical-value-and-weight", dup)
	}
	es := ref.Sorted()
	if len(es) == 0 {
		return true
	}
	r := wmpt.New(wmpt.NewHashNode(append([]byte{}, root...), weight), db)
	vp.Assert(lbl+".weight", r.Weight() == ref.Total())
	var lo uint64
	for i, e := range es {
		for _, b := range []uint64{lo + 1, lo + e.Weight} {
			var key, proof []byte
			var err error
			if vp.NoPanic("C11.nopanic", func() { key, proof, err = r.GetBlockProof(b) }) {
				return false
			}
			vp.Assert(lbl+".every-node-resolves", err == nil)
			if err != nil {
				return true
			}
			vp.Assert(lbl+".owner", bytes.Equal(key, es[i].Key))
			var hash, val []byte
			if vp.NoPanic("C11.nopanic", func() { hash, val, err = wmpt.New(nil, nil).VerifyBlockProof(b, proof) }) {
				return false
			}
			vp.Assert(lbl+".proof-verifies", err == nil && bytes.Equal(hash, root))
			if err == nil {
				vp.Assert(lbl+".value", wmptlib.BytesEq(val, e.Value))
			}
		}
		lo += e.Weight
	}
	return true
}

// H_Windows: the disciplined histories (root hash read only right after commits, GC passes
// only when nothing is uncommitted), explored deeper: a committed prefix, then `windows`
// commit windows of `muts` mutations each (update with a symbolic value, delete, delete and
// re-add of identical content, identical re-write), each followed by commit(level) and
// 0..2 GC passes; durability of the committed root is checked after every storage step.
func H_Windows() {
	npool := vp.Param("pool", 3)
	prefix := vp.Param("prefix", 2)
	windows := vp.Param("windows", 2)
	muts := vp.Param("muts", 2)
	maxgc := vp.Param("maxgc", 2)
	pool := wmptlib.Pool()
	pool = [][]byte{pool[0], pool[1], pool[4], pool[3]}[:npool]
	db := wmptlib.NewMemStore()
	t := wmpt.New(nil, db)
	ref := wmptlib.NewRef()
	put := func(i int, val []byte, w uint64) bool {
		var err error
		if vp.NoPanic("C11.nopanic", func() { err = t.Update(pool[i], val, w) }) {
			return false
		}
		vp.Assert("C11.update-ok", err == nil)
		ref.Put(pool[i], val, w)
		return true
	}
	del := func(i int) bool {
		var err error
		if vp.NoPanic("C11.nopanic", func() { err = t.Update(pool[i], nil, 0) }) {
			return false
		}
		vp.Assert("C11.delete-ok", err == nil)
		ref.Del(pool[i])
		return true
	}
	// known-finding region: two different keys were given identical (value, weight) at some
	// time, so that they share a content-addressed value node
	type hist struct {
		key int
		pb  byte
	}
	var written []hist
	dup := false
	note := func(i int, pb byte) {
		for _, h := range written {
			if h.key != i {
				dup = vp.Or(dup, h.pb == pb)
			}
		}
		written = append(written, hist{i, pb})
	}
	var root []byte
	commit := func() bool {
		lvl := levels[vp.Choose("level", vp.Param("nlevels", len(levels)))]
		var err error
		if vp.NoPanic("C11.nopanic", func() {
			b, e := t.Commit(lvl)
			err = e
			if e == nil {
				err = b.Commit(false)
			}
		}) {
			return false
		}
		vp.Assert("C11.commit-ok", err == nil)
		if vp.NoPanic("C11.nopanic", func() { root = append([]byte{}, t.Root()...) }) {
			return false
		}
		return checkReopenedAll("C11.window", db, root, t.Weight(), ref, dup)
	}
	for i := 0; i < prefix; i++ {
		pb := vp.Byte("payload")
		note(i, pb)
		if !put(i, []byte{pb, 0x5a}, uint64(pb)+1) {
			return
		}
	}
	if prefix > 0 && !commit() {
		return
	}
	for w := 0; w < windows; w++ {
		for m := 0; m < muts; m++ {
			i := vp.Choose("key", npool)
			e, live := ref.M[string(pool[i])]
			switch vp.Choose("mut", 4) {
			case 0:
				pb := vp.Byte("payload")
				note(i, pb)
				if !put(i, []byte{pb, 0x5a}, uint64(pb)+1) {
					return
				}
			case 1:
				if !live {
					vp.Assume(false)
				}
				if !del(i) {
					return
				}
			case 2: // delete and re-add identical content
				if !live {
					vp.Assume(false)
				}
				val, wt := append([]byte{}, e.Value...), e.Weight
				if !del(i) || !put(i, val, wt) {
					return
				}
				vp.Cover("C11.readd")
			case 3: // identical re-write
				if !live {
					vp.Assume(false)
				}
				if !put(i, append([]byte{}, e.Value...), e.Weight) {
					return
				}
			}
		}
		if !commit() {
			return
		}
		ngc := vp.Choose("ngc", maxgc+1)
		if vp.Param("gc_all_or_none", 0) == 1 && ngc != 0 && ngc != maxgc {
			vp.Assume(false)
		}
		for g := 0; g < ngc; g++ {
			var err error
			if vp.NoPanic("C11.nopanic", func() { err = t.DeleteNodes() }) {
				return
			}
			vp.Assert("C11.gc-ok", err == nil)
			if !checkReopenedAll("C11.window", db, root, t.Weight(), ref, dup) {
				return
			}
		}
	}
	vp.Cover("C11.windows.done")
}
