// Package c18: C18 — currency arithmetic is exact or fails loudly.
//
// Every harness takes full-width symbolic operands; the specification side uses
// wide arithmetic (vp.Mul128, 65-bit reasoning through comparisons) or the SMT
// floating-point theory (through ordinary Go float expressions on symbolic values).
package c18

import (
	"github.com/0chain/common/core/currency"

	"verifharness/vp"
)

var Harnesses = map[string]func(){
	"H_MultCoin":       H_MultCoin,
	"H_AddCoin":        H_AddCoin,
	"H_MinusCoin":      H_MinusCoin,
	"H_AddInt64":       H_AddInt64,
	"H_MinusInt64":     H_MinusInt64,
	"H_DistributeCoin": H_DistributeCoin,
	"H_Int64ToCoin":    H_Int64ToCoin,
	"H_CoinInt64":      H_CoinInt64,
	"H_CoinFloat64":    H_CoinFloat64,
	"H_Float64ToCoin":  H_Float64ToCoin,
	"H_MultFloat64":    H_MultFloat64,
	"H_Min":            H_Min,
	"H_Msgp":           H_Msgp,
	"H_ParseZCN":       H_ParseZCN,
}

const two64 = 18446744073709551616.0
const maxFloat = 1.79769313486231570814527423731704356798070e+308
const maxInt64 = uint64(1<<63 - 1)

func H_MultCoin() {
	c, b := currency.Coin(vp.Uint64("c")), currency.Coin(vp.Uint64("b"))
	var r currency.Coin
	var err error
	vp.NoPanic("C18.mult.nopanic", func() { r, err = currency.MultCoin(c, b) })
	hi, lo := vp.Mul128(uint64(c), uint64(b))
	vp.Observe("mult", uint64(r), err != nil)
	vp.Assert("C18.mult.err-iff-overflow", (err != nil) == (hi != 0))
	vp.Assert("C18.mult.exact", vp.Or(err != nil, uint64(r) == lo))
	vp.Cover("C18.mult.reached")
}

func H_AddCoin() {
	c, b := currency.Coin(vp.Uint64("c")), currency.Coin(vp.Uint64("b"))
	var r currency.Coin
	var err error
	vp.NoPanic("C18.add.nopanic", func() { r, err = currency.AddCoin(c, b) })
	sum := uint64(c) + uint64(b)
	ovf := sum < uint64(c) // 65-bit carry
	vp.Observe("add", uint64(r), err != nil)
	vp.Assert("C18.add.err-iff-overflow", (err != nil) == ovf)
	vp.Assert("C18.add.exact", vp.Or(err != nil, uint64(r) == sum))
	vp.Cover("C18.add.reached")
}

func H_MinusCoin() {
	c, b := currency.Coin(vp.Uint64("c")), currency.Coin(vp.Uint64("b"))
	var r currency.Coin
	var err error
	vp.NoPanic("C18.minus.nopanic", func() { r, err = currency.MinusCoin(c, b) })
	vp.Observe("minus", uint64(r), err != nil)
	vp.Assert("C18.minus.err-iff-underflow", (err != nil) == (uint64(b) > uint64(c)))
	vp.Assert("C18.minus.exact", vp.Or(err != nil, uint64(r) == uint64(c)-uint64(b)))
	vp.Cover("C18.minus.reached")
}

func H_AddInt64() {
	c, a := currency.Coin(vp.Uint64("c")), vp.Int64("a")
	var r currency.Coin
	var err error
	vp.NoPanic("C18.addint.nopanic", func() { r, err = currency.AddInt64(c, a) })
	sum := uint64(c) + uint64(a)
	bad := vp.Or(a < 0, sum < uint64(c))
	vp.Observe("addint", uint64(r), err != nil)
	vp.Assert("C18.addint.err-iff-unrepresentable", (err != nil) == bad)
	vp.Assert("C18.addint.exact", vp.Or(err != nil, uint64(r) == sum))
	vp.Cover("C18.addint.reached")
}

func H_MinusInt64() {
	c, a := currency.Coin(vp.Uint64("c")), vp.Int64("a")
	var r currency.Coin
	var err error
	vp.NoPanic("C18.minusint.nopanic", func() { r, err = currency.MinusInt64(c, a) })
	bad := vp.Or(a < 0, uint64(a) > uint64(c))
	vp.Observe("minusint", uint64(r), err != nil)
	vp.Assert("C18.minusint.err-iff-unrepresentable", (err != nil) == bad)
	vp.Assert("C18.minusint.exact", vp.Or(err != nil, uint64(r) == uint64(c)-uint64(a)))
	vp.Cover("C18.minusint.reached")
}

func H_DistributeCoin() {
	c, a := currency.Coin(vp.Uint64("c")), vp.Int64("a")
	var q, rem currency.Coin
	var err error
	vp.NoPanic("C18.distribute.nopanic", func() { q, rem, err = currency.DistributeCoin(c, a) })
	bad := a <= 0 // negative divisor is not a Coin; zero divisor has no quotient
	vp.Observe("distribute", uint64(q), uint64(rem), err != nil)
	vp.Assert("C18.distribute.err-iff-bad-divisor", (err != nil) == bad)
	// exact Euclidean division: c = q*a + rem, rem < a (checked through the wide product)
	hi, lo := vp.Mul128(uint64(q), uint64(a))
	vp.Assert("C18.distribute.exact", vp.Or(err != nil,
		vp.And(vp.And(hi == 0, lo+uint64(rem) == uint64(c)), vp.And(lo+uint64(rem) >= lo, uint64(rem) < uint64(a)))))
	vp.Cover("C18.distribute.reached")
}

func H_Int64ToCoin() {
	a := vp.Int64("a")
	var r currency.Coin
	var err error
	vp.NoPanic("C18.int64tocoin.nopanic", func() { r, err = currency.Int64ToCoin(a) })
	vp.Observe("int64tocoin", uint64(r), err != nil)
	vp.Assert("C18.int64tocoin.err-iff-negative", (err != nil) == (a < 0))
	vp.Assert("C18.int64tocoin.exact", vp.Or(err != nil, uint64(r) == uint64(a)))
	vp.Cover("C18.int64tocoin.reached")
}

func H_CoinInt64() {
	c := currency.Coin(vp.Uint64("c"))
	var r int64
	var err error
	vp.NoPanic("C18.coinint64.nopanic", func() { r, err = c.Int64() })
	vp.Observe("coinint64", r, err != nil)
	vp.Assert("C18.coinint64.err-iff-too-large", (err != nil) == (uint64(c) > maxInt64))
	vp.Assert("C18.coinint64.exact", vp.Or(err != nil, vp.And(r >= 0, uint64(r) == uint64(c))))
	vp.Cover("C18.coinint64.reached")
}

func H_CoinFloat64() {
	c := currency.Coin(vp.Uint64("c"))
	var r float64
	var err error
	vp.NoPanic("C18.coinfloat64.nopanic", func() { r, err = c.Float64() })
	vp.Observe("coinfloat64", r, err != nil)
	// every uint64 has an IEEE double (round to nearest even): never an error
	vp.Assert("C18.coinfloat64.noerr", err == nil)
	vp.Assert("C18.coinfloat64.ieee", r == float64(uint64(c)))
	vp.Cover("C18.coinfloat64.reached")
}

// floatBad: argument is NaN, negative, infinite or too large for uint64.
func floatBad(a float64) bool {
	return vp.Or(vp.Or(a != a, a < 0), a >= two64)
}

func H_Float64ToCoin() {
	a := vp.Float64("a")
	var r currency.Coin
	var err error
	vp.NoPanic("C18.float64tocoin.nopanic", func() { r, err = currency.Float64ToCoin(a) })
	bad := floatBad(a)
	vp.Observe("float64tocoin", uint64(r), err != nil)
	vp.Assert("C18.float64tocoin.err-iff-unrepresentable", (err != nil) == bad)
	vp.Assert("C18.float64tocoin.trunc", vp.Or(err != nil, vp.Or(bad, uint64(r) == uint64(a))))
	vp.Cover("C18.float64tocoin.reached")
}

func H_MultFloat64() {
	c, a := currency.Coin(vp.Uint64("c")), vp.Float64("a")
	var r currency.Coin
	var err error
	vp.NoPanic("C18.multfloat.nopanic", func() { r, err = currency.MultFloat64(c, a) })
	b := float64(uint64(c)) * a // IEEE: RNE conversion, RNE product
	// the multiplier is an argument but not an amount: it is bad when NaN, negative or
	// infinite; the product is the amount and must also fit a uint64
	badArg := vp.Or(vp.Or(a != a, a < 0), a > maxFloat)
	bad := vp.Or(badArg, floatBad(b))
	vp.Observe("multfloat", uint64(r), err != nil)
	vp.Assert("C18.multfloat.err-iff-unrepresentable", (err != nil) == bad)
	vp.Assert("C18.multfloat.trunc", vp.Or(err != nil, vp.Or(bad, uint64(r) == uint64(b))))
	vp.Cover("C18.multfloat.reached")
}

func H_Min() {
	a, b := currency.Coin(vp.Uint64("a")), currency.Coin(vp.Uint64("b"))
	var r currency.Coin
	vp.NoPanic("C18.min.nopanic", func() { r = currency.Min(a, b) })
	vp.Observe("min", uint64(r))
	vp.Assert("C18.min.lower-bound", vp.And(r <= a, r <= b))
	vp.Assert("C18.min.is-operand", vp.Or(r == a, r == b))
	vp.Cover("C18.min.reached")
}

func H_Msgp() {
	c := currency.Coin(vp.Uint64("c"))
	var out currency.Coin
	var err error
	var rest []byte
	var enc []byte
	vp.NoPanic("C18.msgp.nopanic", func() {
		enc, err = c.MarshalMsg(nil)
		if err == nil {
			rest, err = out.UnmarshalMsg(enc)
		}
	})
	vp.Observe("msgp", uint64(out), err != nil, len(rest), len(enc))
	vp.Assert("C18.msgp.noerr", err == nil)
	vp.Assert("C18.msgp.roundtrip", uint64(out) == uint64(c))
	vp.Assert("C18.msgp.consumed", len(rest) == 0)
	vp.Cover("C18.msgp.reached")
}

// H_ParseZCN: ParseZCN's own logic over the abstract decimal produced by the
// decimal model (coefficient symbolic, exponent enumerated). The model exposes
// the decimal it chose through the inputs "decimal.coeff" / "choice.decimal.exp",
// which the specification side reads back with vp.LastDecimal.
func H_ParseZCN() {
	f := vp.Float64("f")
	var r currency.Coin
	var err error
	vp.NoPanic("C18.parsezcn.nopanic", func() { r, err = currency.ParseZCN(f) })
	vp.Observe("parsezcn.err", err != nil)
	coeff, exp, ok := vp.LastDecimal()
	if !ok {
		// NaN/Inf (must not panic: asserted by NoPanic above) or zero
		vp.Cover("C18.parsezcn.special")
		return
	}
	// amount * 10^10 = coeff * 10^(exp+10)
	e := exp + 10
	switch {
	case e < 0:
		// coeff has no trailing zero in the library's output, so the product is not an integer
		vp.Assert("C18.parsezcn.too-many-decimals", err != nil)
	default:
		neg := coeff < 0
		hi, lo, fits := vp.MulPow10(uint64(coeff), e) // coeff*10^e as 128 bits (fits=false if beyond)
		inRange := vp.And(!neg, vp.And(fits, vp.And(hi == 0, lo <= maxInt64)))
		vp.Assert("C18.parsezcn.ok-iff-representable", (err == nil) == inRange)
		vp.Assert("C18.parsezcn.exact", vp.Or(err != nil, uint64(r) == lo))
	}
	vp.Cover("C18.parsezcn.reached")
}
