package c18

import (
	"testing"

	"verifharness/vp"
)

func TestReplay(t *testing.T) {
	if err := vp.RunBatch(Harnesses, nil); err != nil {
		t.Fatal(err)
	}
}
