// Package c20: C20 — the in-memory log buffer keeps the most recent entries of all loggers.
package c20

import (
	"sync"

	"go.uber.org/zap/zapcore"

	"github.com/0chain/common/core/logging"

	"verifharness/vp"
)

var Harnesses = map[string]func(){
	"H_Ring": H_Ring,
	"H_Conc": H_Conc,
}

// enc is a trivial encoder: only Clone is ever needed (derived cores clone it).
type enc struct{ zapcore.Encoder }

func (e *enc) Clone() zapcore.Encoder { return &enc{} }

type all struct{}

func (all) Enabled(zapcore.Level) bool { return true }

func entry(stamp int) zapcore.Entry {
	return zapcore.Entry{Caller: zapcore.EntryCaller{Defined: true, Line: stamp}}
}

// H_Ring: histories of writes through the root core and cores derived from it (With) at
// different times; stamps are symbolic strictly increasing integers. After every operation
// GetLogs must return exactly the newest min(total, capacity) stamps, newest first.
// BufferSize is shrunk to `cap` by source overlay (the harness reads it back).
func H_Ring() {
	k := vp.Param("k", 6)
	maxDerived := vp.Param("derived", 2)
	capacity := logging.BufferSize
	ml := logging.NewMemLogger(&enc{}, all{})
	cores := []zapcore.Core{ml.GetCore()}
	var written []int
	var withField []bool
	last := 0
	derivedWrite := false // some entry was written through a derived core (known-finding region)
	for s := 0; s < k; s++ {
		nopt := len(cores) // write through core i
		canDerive := len(cores)-1 < maxDerived
		if canDerive {
			nopt += len(cores) // derive from core j
		}
		o := vp.Choose("op", nopt)
		if o < len(cores) {
			d := int(vp.Int64("stamp"))
			vp.Assume(d > last)
			vp.Assume(d < 1<<40)
			last = d
			var err error
			// an entry carries its stamp in a field too, or has no fields at all
			var fields []zapcore.Field
			if vp.Param("fields", 0) == 1 && vp.Choose("with-field", 2) == 1 {
				fields = []zapcore.Field{{Key: "stamp", Type: zapcore.Int64Type, Integer: int64(d)}}
			}
			if vp.NoPanic("C20.nopanic", func() { err = cores[o].Write(entry(d), fields) }) {
				return
			}
			vp.Assert("C20.write-ok", err == nil)
			written = append(written, d)
			withField = append(withField, len(fields) > 0)
			if o > 0 {
				derivedWrite = true
			}
		} else {
			j := o - len(cores)
			var nc zapcore.Core
			if vp.NoPanic("C20.nopanic", func() { nc = cores[j].With([]zapcore.Field{{Type: zapcore.SkipType}}) }) {
				return
			}
			cores = append(cores, nc)
			vp.Cover("C20.derived")
		}
		// expected: newest first
		n := len(written)
		if n > capacity {
			n = capacity
		}
		logs := ml.GetLogs()
		vp.Known("C20.count", "write-through-derived-core", derivedWrite)
		vp.Known("C20.newest-first-none-lost", "write-through-derived-core", derivedWrite)
		vp.Assert("C20.count", len(logs) == n)
		if len(logs) == n {
			for i := 0; i < n; i++ {
				vp.Assert("C20.newest-first-none-lost", logs[i] != nil && logs[i].Caller.Line == written[len(written)-1-i])
				if logs[i] != nil && !derivedWrite {
					// the retained entry is the one that was written, fields included
					if withField[len(written)-1-i] {
						vp.Assert("C20.entry-keeps-its-own-fields", len(logs[i].Context) == 1 && logs[i].Context[0].Integer == int64(written[len(written)-1-i]))
					} else {
						vp.Assert("C20.entry-keeps-its-own-fields", len(logs[i].Context) == 0)
					}
				}
			}
		}
		if len(written) > capacity {
			vp.Cover("C20.wrapped")
		}
	}
	vp.Observe("final", len(written), len(cores))
	vp.Cover("C20.done")
}

// H_Conc: `writers` goroutines write `per` entries each through the root core while, optionally,
// a reader goroutine takes a snapshot.  Schedules are explored at lock granularity (every lock
// operation is a scheduling point; the code between two of them is one step, which the
// happens-before monitor justifies or refutes).  Stamps are distinct symbolic integers,
// increasing per writer.
//   - final snapshot: some merge of the writers' sequences, newest first, cut to the capacity:
//     per writer the retained stamps are a suffix of what it wrote, in its order, nothing twice;
//   - the reader's snapshot (only taken when the total stays within the capacity, so that no
//     entry object is ever reused while the reader looks at it): per writer a prefix of what it
//     wrote, newest first within that writer.
func H_Conc() {
	writers := vp.Param("writers", 2)
	per := vp.Param("per", 2)
	reader := vp.Param("reader", 0) == 1
	vp.ExploreSchedules(vp.Param("preempt", -1))
	vp.YieldAtLocks(true)
	vp.RaceDetect(true)
	capacity := logging.BufferSize
	ml := logging.NewMemLogger(&enc{}, all{})
	core := ml.GetCore()
	stamps := make([][]int, writers)
	for w := 0; w < writers; w++ {
		last := w * (1 << 20)
		for i := 0; i < per; i++ {
			d := int(vp.Int64("stamp"))
			vp.Assume(d > last)
			vp.Assume(d < (w+1)*(1<<20))
			last = d
			stamps[w] = append(stamps[w], d)
		}
	}
	owner := func(d int) int { return d >> 20 }
	for w := 0; w < writers; w++ {
		w := w
		vp.Go(func() {
			for _, d := range stamps[w] {
				_ = core.Write(entry(d), nil)
			}
		})
	}
	var snap []int
	var hmu sync.Mutex
	if reader {
		vp.Go(func() {
			logs := ml.GetLogs()
			var got []int
			for _, l := range logs {
				if l != nil {
					got = append(got, l.Caller.Line)
				} else {
					got = append(got, -1)
				}
			}
			hmu.Lock()
			snap = got
			hmu.Unlock()
		})
	}
	vp.Wait()
	total := writers * per
	n := total
	if n > capacity {
		n = capacity
	}
	// suffixOK: the stamps of writer w inside got (newest first) are, read backwards, a suffix
	// (final snapshot) or a prefix (reader snapshot) of stamps[w]
	check := func(label string, got []int, suffix bool) {
		seen := make([]int, writers)
		for i := len(got) - 1; i >= 0; i-- { // oldest first
			d := got[i]
			vp.Assert(label+".entry-present", d >= 0)
			if d < 0 {
				return
			}
			w := owner(d)
			vp.Assert(label+".stamp-was-written", w >= 0 && w < writers)
			if w < 0 || w >= writers {
				return
			}
			seen[w]++
		}
		pos := make([]int, writers)
		for w := range pos {
			if suffix {
				pos[w] = per - seen[w]
			}
		}
		for i := len(got) - 1; i >= 0; i-- {
			w := owner(got[i])
			ok := pos[w] >= 0 && pos[w] < per && stamps[w][pos[w]] == got[i]
			vp.Assert(label+".per-writer-order-none-lost-none-twice", ok)
			if !ok {
				return
			}
			pos[w]++
		}
	}
	final := ml.GetLogs()
	vp.Assert("C20.conc.count", len(final) == n)
	var fin []int
	for _, l := range final {
		if l != nil {
			fin = append(fin, l.Caller.Line)
		} else {
			fin = append(fin, -1)
		}
	}
	check("C20.conc.final", fin, true)
	if reader {
		vp.Assert("C20.conc.snapshot-size", len(snap) <= n)
		check("C20.conc.snapshot", snap, false)
		vp.Cover("C20.conc.snapshot")
	}
	if total > capacity {
		vp.Cover("C20.conc.wrapped")
	}
	vp.Cover("C20.conc.done")
}
