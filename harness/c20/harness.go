// Package c20: C20 — the in-memory log buffer keeps the most recent entries of all loggers.
package c20

import (
	"go.uber.org/zap/zapcore"

	"github.com/0chain/common/core/logging"

	"verifharness/vp"
)

var Harnesses = map[string]func(){
	"H_Ring": H_Ring,
}

// enc is a trivial encoder: only Clone is ever needed (derived cores clone it).
type enc struct{ zapcore.Encoder }

func (e *enc) Clone() zapcore.Encoder { return &enc{} }

type all struct{}

func (all) Enabled(zapcore.Level) bool { return true }

func entry(stamp int) zapcore.Entry {
	return zapcore.Entry{Caller: zapcore.EntryCaller{Defined: true, Line: stamp}}
}

// H_Ring: histories of writes through the root core and cores derived from it (With) at
// different times; stamps are symbolic strictly increasing integers. After every operation
// GetLogs must return exactly the newest min(total, capacity) stamps, newest first.
// BufferSize is shrunk to `cap` by source overlay (the harness reads it back).
func H_Ring() {
	k := vp.Param("k", 6)
	maxDerived := vp.Param("derived", 2)
	capacity := logging.BufferSize
	ml := logging.NewMemLogger(&enc{}, all{})
	cores := []zapcore.Core{ml.GetCore()}
	var written []int
	last := 0
	derivedWrite := false // some entry was written through a derived core (known-finding region)
	for s := 0; s < k; s++ {
		nopt := len(cores) // write through core i
		canDerive := len(cores)-1 < maxDerived
		if canDerive {
			nopt += len(cores) // derive from core j
		}
		o := vp.Choose("op", nopt)
		if o < len(cores) {
			d := int(vp.Int64("stamp"))
			vp.Assume(d > last)
			vp.Assume(d < 1<<40)
			last = d
			var err error
			if vp.NoPanic("C20.nopanic", func() { err = cores[o].Write(entry(d), nil) }) {
				return
			}
			vp.Assert("C20.write-ok", err == nil)
			written = append(written, d)
			if o > 0 {
				derivedWrite = true
			}
		} else {
			j := o - len(cores)
			var nc zapcore.Core
			if vp.NoPanic("C20.nopanic", func() { nc = cores[j].With([]zapcore.Field{{Type: zapcore.SkipType}}) }) {
				return
			}
			cores = append(cores, nc)
			vp.Cover("C20.derived")
		}
		// expected: newest first
		n := len(written)
		if n > capacity {
			n = capacity
		}
		logs := ml.GetLogs()
		vp.Known("C20.count", "write-through-derived-core", derivedWrite)
		vp.Known("C20.newest-first-none-lost", "write-through-derived-core", derivedWrite)
		vp.Assert("C20.count", len(logs) == n)
		if len(logs) == n {
			for i := 0; i < n; i++ {
				vp.Assert("C20.newest-first-none-lost", logs[i] != nil && logs[i].Caller.Line == written[len(written)-1-i])
			}
		}
		if len(written) > capacity {
			vp.Cover("C20.wrapped")
		}
	}
	vp.Observe("final", len(written), len(cores))
	vp.Cover("C20.done")
}
