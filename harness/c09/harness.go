// Package c09: C09 — weighted trie: total weight, block ownership and root follow content.
package c09

import (
	"bytes"

	"github.com/0chain/common/core/util/wmpt"

	"verifharness/vp"
	"verifharness/wmptlib"
)

var Harnesses = map[string]func(){
	"H_Content": H_Content,
}

var levels = []int{0, 1, 2, 64}

func keyIndex(es []*wmptlib.Entry, k []byte) int {
	for i, e := range es {
		if bytes.Equal(e.Key, k) {
			return i
		}
	}
	return -1
}

// H_Content: k operations from {update, delete, commit(level), garbage collection, reload}
// over a pool of prefix-structured keys; weights, value payload and block number symbolic.
func H_Content() {
	k := vp.Param("k", 4)
	npool := vp.Param("pool", 4)
	prefix := vp.Param("prefix", 0) // number of forced initial updates (keys 0..prefix-1)
	wshift := vp.Param("wshift", 0)
	pool := wmptlib.Pool()
	if vp.Param("poolsel", 0) == 1 {
		// three keys that differ only in the last nibble (a 3-child branch below a long shared prefix) plus one far key
		twin := append([]byte{}, pool[1]...)
		twin[31] = 2
		pool = [][]byte{pool[0], pool[1], twin, pool[4]}
	}
	pool = pool[:npool]
	db := wmptlib.NewMemStore()
	t := wmpt.New(nil, db)
	ref := wmptlib.NewRef()
	clean := true // root is durably committed (or trie empty): reload allowed
	var sum uint64

	checkWeight := func() {
		vp.Assert("C09.weight-is-sum", t.Weight() == ref.Total())
	}
	update := func(i int) bool {
		// the weight is a function of the value: w = (payload+1) << wshift
		pb := vp.Byte("payload")
		w := (uint64(pb) + 1) << uint(wshift)
		val := []byte{pb, 0x5a}
		var err error
		// Update, or the other public entry point for the same operation (Put)
		viaPut := vp.Param("altapi", 0) == 1 && vp.Choose("via-put", 2) == 1
		if vp.NoPanic("C09.nopanic", func() {
			if viaPut {
				err = t.Put(pool[i], val, w)
			} else {
				err = t.Update(pool[i], val, w)
			}
		}) {
			return false
		}
		vp.Assert("C09.update-ok", err == nil)
		ref.Put(pool[i], val, w)
		clean = false
		return true
	}
	for s := 0; s < prefix; s++ {
		if !update(s) {
			return
		}
		checkWeight()
	}
	for s := 0; s < k; s++ {
		opmask := vp.Param("opmask", 31)
		var kinds []int
		for b := 0; b < 5; b++ {
			if opmask&(1<<uint(b)) != 0 {
				kinds = append(kinds, b)
			}
		}
		op := kinds[vp.Choose("op", len(kinds))]
		switch op {
		case 0:
			if !update(vp.Choose("key", npool)) {
				return
			}
		case 1:
			i := vp.Choose("key", npool)
			was := ref.Has(pool[i])
			var err error
			viaDelete := vp.Param("altapi", 0) == 1 && vp.Choose("via-delete", 2) == 1
			if vp.NoPanic("C09.nopanic", func() {
				if viaDelete {
					_, err = t.Delete(pool[i])
				} else {
					err = t.Update(pool[i], nil, 0)
				}
			}) {
				return
			}
			if was {
				vp.Assert("C09.delete-ok", err == nil)
				ref.Del(pool[i])
				clean = false
			} else {
				vp.Assert("C09.delete-absent-not-found", err == wmpt.ErrNotFound)
			}
		case 2:
			lvl := levels[vp.Choose("level", len(levels))]
			var err error
			if vp.NoPanic("C09.nopanic", func() {
				b, e := t.Commit(lvl)
				err = e
				if e == nil {
					err = b.Commit(false)
				}
			}) {
				return
			}
			vp.Assert("C09.commit-ok", err == nil)
			clean = true
			// root and ownership are observed directly after a commit
			var root []byte
			if vp.NoPanic("C09.nopanic", func() { root = t.Root() }) {
				return
			}
			want := wmptlib.RefRoot(ref)
			vp.Observe("root-matches", bytes.Equal(root, want))
			vp.Assert("C09.root-matches-independent-computation", bytes.Equal(root, want))
			es := ref.Sorted()
			if len(es) > 0 {
				sum = ref.Total()
				b := vp.Uint64("block")
				vp.Assume(b >= 1)
				vp.Assume(b <= sum)
				var key []byte
				var perr error
				if vp.NoPanic("C09.nopanic", func() { key, _, perr = t.GetBlockProof(b) }) {
					return
				}
				if perr != nil {
					vp.Logf("GetBlockProof(%d) error: %v", b, perr)
				}
				vp.Assert("C09.proof-ok", perr == nil)
				if perr == nil {
					i := keyIndex(es, key)
					vp.Assert("C09.owner-is-live-key", i >= 0)
					if i >= 0 {
						vp.Assert("C09.owner-interval-contains-block", wmptlib.OwnerIs(es, i, b))
						vp.Observe("owner", i)
					}
				}
				vp.Cover("C09.proof")
			}
		case 3:
			var err error
			if vp.NoPanic("C09.nopanic", func() { err = t.DeleteNodes() }) {
				return
			}
			vp.Assert("C09.gc-ok", err == nil)
		case 4:
			if !clean {
				vp.Assume(false)
			}
			if ref.Total() > 0 {
				t = wmpt.New(wmpt.NewHashNode(append([]byte{}, t.Root()...), t.Weight()), db)
			} else {
				t = wmpt.New(nil, db)
			}
			vp.Cover("C09.reload")
		}
		var w uint64
		if vp.NoPanic("C09.nopanic", func() { w = t.Weight() }) {
			return
		}
		vp.Assert("C09.weight-is-sum", w == ref.Total())
	}
	vp.Cover("C09.done")
}
