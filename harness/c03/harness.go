// Package c03: C03 — child tries are isolated transactions: merge publishes, discard leaves no trace.
package c03

import (
	"bytes"
	"context"

	"github.com/0chain/common/core/util"

	"verifharness/mptlib"
	"verifharness/vp"
)

var Harnesses = map[string]func(){
	"H_Children": H_Children,
}

// snapshot of everything the property says must stay "exactly as it was": root, content
// (via reference), pending changes (as hash -> encoding, re-encoding every node object
// now), pending deletes, start root, and the nodes of the parent's current store level.
type snapshot struct {
	root    []byte
	start   []byte
	changes map[string][]byte // new-node hash -> encoding
	olds    map[string][]byte // new-node hash -> old-node encoding (nil if none)
	deletes map[string][]byte
	level   map[string][]byte
}

func snap(t *util.MerklePatriciaTrie) *snapshot {
	s := &snapshot{changes: map[string][]byte{}, olds: map[string][]byte{}, deletes: map[string][]byte{}, level: map[string][]byte{}}
	root, changes, deletes, start := t.GetChanges()
	s.root = mptlib.Cp(root)
	s.start = mptlib.Cp(start)
	for _, c := range changes {
		h := c.New.GetHash()
		s.changes[h] = c.New.Encode()
		if c.Old != nil {
			s.olds[h] = c.Old.Encode()
		}
	}
	for _, d := range deletes {
		s.deletes[d.GetHash()] = d.Encode()
	}
	if l, ok := t.GetNodeDB().(*util.LevelNodeDB); ok {
		l.GetCurrent().Iterate(context.TODO(), func(ctx context.Context, key util.Key, node util.Node) error {
			s.level[string(mptlib.Cp(key))+"|"+node.GetHash()] = node.Encode()
			return nil
		})
	}
	return s
}

func sameMap(lbl string, a, b map[string][]byte) {
	vp.Assert(lbl+".count", len(a) == len(b))
	for k, va := range a {
		vb, ok := b[k]
		vp.Assert(lbl+".key", ok)
		if ok {
			vp.Assert(lbl+".bytes", mptlib.BytesEq(va, vb))
		}
	}
}

func sameSnap(lbl string, a, b *snapshot) {
	vp.Assert(lbl+".root", bytes.Equal(a.root, b.root))
	vp.Assert(lbl+".startroot", bytes.Equal(a.start, b.start))
	sameMap(lbl+".changes", a.changes, b.changes)
	sameMap(lbl+".changes-old", a.olds, b.olds)
	sameMap(lbl+".deletes", a.deletes, b.deletes)
	sameMap(lbl+".level", a.level, b.level)
}

func child(p *util.MerklePatriciaTrie, version int64) *util.MerklePatriciaTrie {
	return mptlib.NewTrie(util.NewLevelNodeDB(util.NewMemoryNodeDB(), p.GetNodeDB(), false), version, p.GetRoot())
}

// ops applies k symbolic operations to t and its reference; returns false if a panic was recorded.
func ops(name string, t *util.MerklePatriciaTrie, ref *mptlib.Ref, k int, alpha []byte, lmax int, kinds int) bool {
	for i := 0; i < k; i++ {
		kind := vp.Choose(name+".op", kinds)
		p := mptlib.GenPath(name+".p", alpha, lmax)
		if kind == 0 {
			v := mptlib.GenValue(name+".v", 1)
			if vp.NoPanic("C03.nopanic", func() { t.Insert(util.Path(mptlib.Cp(p)), mptlib.Val(v)) }) {
				return false
			}
			ref.Put(p, v)
		} else {
			var err error
			if vp.NoPanic("C03.nopanic", func() { _, err = t.Delete(util.Path(mptlib.Cp(p))) }) {
				return false
			}
			if err == nil {
				ref.Del(p)
			} else {
				ref.Touch(p)
			}
		}
	}
	return true
}

func H_Children() {
	seed := vp.Param("seed", 1)
	pend := vp.Param("pending", 1) // symbolic operations pending in the parent
	k1 := vp.Param("k1", 1)
	k2 := vp.Param("k2", 0)
	alpha := mptlib.Alphabet(vp.Param("alpha", 2))
	lmax := vp.Param("lmax", 4)
	pkinds := vp.Param("pending_kinds", 1) // 1: inserts only, 2: inserts and deletes
	version := vp.Int64("version")

	// committed lower level
	base := util.NewMemoryNodeDB()
	t0 := mptlib.NewTrie(base, version, nil)
	refP := mptlib.NewRef()
	mptlib.ApplySeed(t0, refP, seed)

	// parent (block state) over the base, possibly with pending changes
	P := mptlib.NewTrie(util.NewLevelNodeDB(util.NewMemoryNodeDB(), base, false), version, t0.GetRoot())
	if !ops("pp", P, refP, pend, alpha, lmax, pkinds) {
		return
	}
	s0 := snap(P)

	C1 := child(P, version)
	C2 := child(P, version)
	ref1 := refP.Clone()
	ref2 := refP.Clone()
	if !ops("c1", C1, ref1, k1, alpha, lmax, vp.Param("child_kinds", 2)) {
		return
	}
	// the child sees parent content plus its own changes; parent and sibling see none of them
	if vp.NoPanic("C03.nopanic", func() {
		mptlib.CheckContent("C03.child-view", C1, ref1)
		for p := range ref1.Universe {
			refP.Touch([]byte(p))
			ref2.Touch([]byte(p))
		}
		mptlib.CheckContent("C03.parent-isolated", P, refP)
		mptlib.CheckContent("C03.sibling-isolated", C2, ref2)
		sameSnap("C03.parent-untouched-by-child-ops", s0, snap(P))
	}) {
		return
	}
	if k2 > 0 {
		if !ops("c2", C2, ref2, k2, alpha, lmax, 2) {
			return
		}
		if vp.NoPanic("C03.nopanic", func() {
			for p := range ref2.Universe {
				refP.Touch([]byte(p))
				ref1.Touch([]byte(p))
			}
			mptlib.CheckContent("C03.parent-isolated", P, refP)
			mptlib.CheckContent("C03.sibling-isolated", C1, ref1)
			sameSnap("C03.parent-untouched-by-child-ops", s0, snap(P))
		}) {
			return
		}
	}

	cur := refP
	curSnap := s0
	if vp.Choose("c1.merge", 2) == 1 {
		var err error
		if vp.NoPanic("C03.nopanic", func() { err = P.MergeMPTChanges(C1) }) {
			return
		}
		vp.Assert("C03.merge-ok", err == nil)
		vp.Assert("C03.merge-root", bytes.Equal(P.GetRoot(), C1.GetRoot()))
		cur = ref1
		if vp.NoPanic("C03.nopanic", func() { mptlib.CheckContent("C03.merged-content", P, cur) }) {
			return
		}
		curSnap = snap(P)
		vp.Cover("C03.merged")
	} else {
		// discarded: nothing to do; the parent must still be exactly as it was
		sameSnap("C03.discard-leaves-no-trace", s0, snap(P))
		vp.Cover("C03.discarded")
	}

	if vp.Choose("c2.merge", 2) == 1 {
		stale := !bytes.Equal(P.GetRoot(), s0.root)
		var err error
		if vp.NoPanic("C03.nopanic", func() { err = P.MergeMPTChanges(C2) }) {
			return
		}
		if stale && !bytes.Equal(C2.GetRoot(), P.GetRoot()) {
			vp.Assert("C03.stale-merge-rejected", err != nil)
			if vp.NoPanic("C03.nopanic", func() {
				sameSnap("C03.rejected-merge-leaves-no-trace", curSnap, snap(P))
				for p := range ref2.Universe {
					cur.Touch([]byte(p))
				}
				mptlib.CheckContent("C03.rejected-merge-content", P, cur)
			}) {
				return
			}
			vp.Cover("C03.stale-rejected")
		} else if !stale {
			vp.Assert("C03.merge-ok", err == nil)
			cur = ref2
			if vp.NoPanic("C03.nopanic", func() { mptlib.CheckContent("C03.merged-content", P, cur) }) {
				return
			}
		}
	} else {
		sameSnap("C03.discard-leaves-no-trace", curSnap, snap(P))
	}

	// a child opened now sees exactly the parent's current content
	C3 := child(P, version)
	if vp.NoPanic("C03.nopanic", func() { mptlib.CheckContent("C03.late-child-view", C3, cur) }) {
		return
	}
	vp.Cover("C03.done")
}
