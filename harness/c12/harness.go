// Package c12: C12 — a partial trie built from a path export evolves like the full trie.
package c12

import (
	"bytes"

	"github.com/0chain/common/core/util/wmpt"

	"verifharness/vp"
	"verifharness/wmptlib"
)

var Harnesses = map[string]func(){
	"H_Partial": H_Partial,
}

func mk(pos int, nib byte) []byte {
	k := make([]byte, 32)
	if pos%2 == 0 {
		k[pos/2] = nib << 4
	} else {
		k[pos/2] = nib
	}
	return k
}

// keysFor returns n present keys and 3 absent keys for a source-trie shape:
// 0: keys differ in the first nibble (root is a branch);
// 1: keys share the first nibble and differ in the second (root is a shared-prefix node);
// 2: like 1 but with a 3-nibble shared prefix.
func keysFor(shape, n int) (present, absent [][]byte) {
	if shape == 4 {
		// pairs of keys sharing their first 63 nibbles (a branch at the last nibble holding values directly)
		for i := 0; i < n; i++ {
			k := mk(0, byte(i/2+1))
			k[31] = byte(i%2 + 1)
			present = append(present, k)
		}
		for i := 0; i < 3; i++ {
			a := mk(0, byte(i+1))
			a[31] = 9
			absent = append(absent, a)
		}
		return
	}
	if shape == 3 {
		// root branch whose children are branches: groups of three keys share the first nibble
		for i := 0; i < n; i++ {
			k := mk(0, byte(i/3+1))
			k[0] |= byte(i%3 + 1)
			present = append(present, k)
		}
		for i := 0; i < 3; i++ {
			a := mk(0, byte(i+1))
			a[0] |= 9
			absent = append(absent, a)
		}
		return
	}
	pos := []int{0, 1, 3}[shape]
	for i := 0; i < n; i++ {
		present = append(present, mk(pos, byte(i+1)))
	}
	for i := 0; i < 3; i++ {
		a := mk(pos, byte(n+1+i)%16)
		if n+1+i >= 16 {
			a = mk(pos, byte(i+1))
			a[31] = 7 // same branch slot as a present key, different tail
		}
		absent = append(absent, a)
	}
	return
}

func H_Partial() {
	shape := vp.Param("shape", 0)
	nk := vp.Param("keys", 3)
	rp := vp.Param("req_present", 2)
	ra := vp.Param("req_absent", 0)
	follow := vp.Param("follow", 1)
	present, absent := keysFor(shape, nk)
	// 0 in memory, 1 committed at level 0 and reloaded, 2 committed at level 1 (kept),
	// 3/4 committed at level 64 and viewed through CopyRoot(1) / CopyRoot(2)
	mode := vp.Choose("mode", vp.Param("modes", 5))
	db := wmptlib.NewMemStore()
	src := wmpt.New(nil, db)
	vals := map[string][]byte{}
	ws := map[string]uint64{}
	for i, k := range present {
		v := []byte{byte(i + 1), 0x33}
		w := uint64(i + 1)
		if i == 0 {
			pb := vp.Byte("payload0")
			v = []byte{pb, 0x33}
			w = uint64(pb) + 1
		}
		if err := src.Update(k, v, w); err != nil {
			panic(err)
		}
		vals[string(k)], ws[string(k)] = v, w
	}
	if mode != 0 {
		lvl := 0
		if mode == 2 {
			lvl = 1
		}
		if mode >= 3 {
			lvl = 64
		}
		b, err := src.Commit(lvl)
		if err != nil || b.Commit(false) != nil {
			panic("commit failed")
		}
		if mode == 1 {
			src = wmpt.New(wmpt.NewHashNode(append([]byte{}, src.Root()...), src.Weight()), db)
		}
		if mode >= 3 {
			src = wmpt.New(src.CopyRoot(mode-2), db)
		}
	}
	var req [][]byte
	req = append(req, present[:rp]...)
	req = append(req, absent[:ra]...)

	var data []byte
	var err error
	if vp.NoPanic("C12.nopanic", func() { data, err = src.GetPath(req) }) {
		return
	}
	vp.Assert("C12.export-ok", err == nil)
	if err != nil {
		return
	}
	part := wmpt.New(nil, nil)
	if vp.NoPanic("C12.nopanic", func() { err = part.Deserialize(data) }) {
		return
	}
	vp.Assert("C12.import-ok", err == nil)
	if err != nil {
		return
	}
	same := func(lbl string) bool {
		var r1, r2 []byte
		if vp.NoPanic("C12.nopanic", func() { r1, r2 = src.Root(), part.Root() }) {
			return false
		}
		vp.Assert(lbl+".same-root", bytes.Equal(r1, r2))
		vp.Assert(lbl+".same-weight", src.Weight() == part.Weight())
		vp.Observe(lbl, bytes.Equal(r1, r2), src.Weight(), part.Weight())
		return true
	}
	if !same("C12.initial") {
		return
	}
	// mirrored follow-up operations restricted to the requested keys
	for s := 0; s < follow && len(req) > 0; s++ {
		i := vp.Choose("fkey", len(req))
		k := req[i]
		var e1, e2 error
		if vp.Choose("fop", 2) == 0 {
			pb := vp.Byte("fpayload")
			v := []byte{pb, 0x44}
			w := uint64(pb) + 1
			if vp.NoPanic("C12.nopanic", func() { e1 = src.Update(k, v, w); e2 = part.Update(k, v, w) }) {
				return
			}
			vp.Assert("C12.followup-update-ok", e1 == nil && e2 == nil)
		} else {
			if vp.NoPanic("C12.nopanic", func() { e1 = src.Update(k, nil, 0); e2 = part.Update(k, nil, 0) }) {
				return
			}
			// deleting an absent key fails in both, deleting a present key succeeds in both
			vp.Assert("C12.followup-delete-same-outcome", (e1 == nil) == (e2 == nil))
		}
		if !same("C12.followup") {
			return
		}
	}
	vp.Cover("C12.done")
}
