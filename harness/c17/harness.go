// Package c17: C17 — missing-node detection is exact and sync repair restores the trie.
package c17

import (
	"bytes"
	"context"
	"errors"

	"github.com/0chain/common/core/util"

	"verifharness/mptlib"
	"verifharness/vp"
)

var Harnesses = map[string]func(){
	"H_Missing":     H_Missing,
	"H_RepairFault": H_RepairFault,
}

// faultDB is the trie's store with one failing write: the failAt-th PutNode returns an error.
type faultDB struct {
	*util.MemoryNodeDB
	failAt int
	calls  int
}

var errWrite = errors.New("injected write fault")

func (f *faultDB) PutNode(k util.Key, n util.Node) error {
	i := f.calls
	f.calls++
	if i == f.failAt {
		return errWrite
	}
	return f.MemoryNodeDB.PutNode(k, n)
}

// H_RepairFault: as H_Missing, but the repair is interrupted by a failing store write at a
// chosen node (fault enumerated over every node the repair writes). The same trie object must
// go on reporting exactly the nodes that are still absent; a second, fault-free repair completes.
func H_RepairFault() {
	seed := vp.Param("seed", 3)
	version := vp.Int64("version")
	db := util.NewMemoryNodeDB()
	t := mptlib.NewTrie(db, version, nil)
	ref := mptlib.NewRef()
	mptlib.ApplySeed(t, ref, seed)
	root := mptlib.Cp(t.GetRoot())
	nodes := mptlib.Reachable(db, root)
	m := len(nodes) - 1
	mask := 1 + vp.Choose("mask", 1<<uint(m)-1)
	donor := util.NewMemoryNodeDB()
	nremoved := 0
	for i := 1; i <= m; i++ {
		if mask&(1<<uint(i-1)) != 0 {
			donor.PutNode(nodes[i].Key, nodes[i].Node)
			db.DeleteNode(nodes[i].Key)
			nremoved++
		}
	}
	fdb := &faultDB{MemoryNodeDB: db, failAt: vp.Choose("fail-at", nremoved)}
	v2 := version
	if vp.Param("same_version", 1) == 0 {
		v2 = vp.Int64("version2")
		vp.Assume(v2 != version)
	}
	t2 := mptlib.NewTrie(fdb, v2, root)
	var err error
	if vp.NoPanic("C17.nopanic", func() { err = t2.MergeDB(donor, root, nil) }) {
		return
	}
	vp.Assert("C17.fault.repair-reports-the-error", err != nil)
	// what is really absent now
	present := make([]bool, len(nodes))
	for i := range nodes {
		_, gerr := db.GetNode(nodes[i].Key)
		present[i] = gerr == nil
	}
	var frontier [][]byte
	for i := 1; i <= m; i++ {
		if present[i] {
			continue
		}
		ok := true
		for a := nodes[i].Parent; a >= 0; a = nodes[a].Parent {
			if !present[a] {
				ok = false
			}
		}
		if ok {
			frontier = append(frontier, nodes[i].Key)
		}
	}
	vp.Assert("C17.fault.something-still-absent", len(frontier) > 0)
	var hasMissing bool
	var herr error
	if vp.NoPanic("C17.nopanic", func() { hasMissing, herr = t2.HasMissingNodes(context.TODO()) }) {
		return
	}
	vp.Assert("C17.fault.hasmissing-exact", herr == nil && hasMissing == (len(frontier) > 0))
	var all []util.Key
	if vp.NoPanic("C17.nopanic", func() { all, _ = t2.GetAllMissingNodes() }) {
		return
	}
	vp.Assert("C17.fault.allmissing-count", len(all) == len(frontier))
	for _, k := range all {
		vp.Assert("C17.fault.allmissing-is-frontier", has(frontier, k))
	}
	// second repair without a fault
	fdb.failAt = -1
	if vp.NoPanic("C17.nopanic", func() { err = t2.MergeDB(donor, root, nil) }) {
		return
	}
	vp.Assert("C17.fault.second-repair-ok", err == nil)
	t3 := mptlib.NewTrie(db, v2, root)
	vp.NoPanic("C17.nopanic", func() {
		hm, e := t3.HasMissingNodes(context.TODO())
		vp.Assert("C17.fault.repaired-complete", e == nil && !hm)
		mptlib.CheckContent("C17.fault.repaired", t3, ref)
	})
	vp.Cover("C17.fault.done")
}

func has(set [][]byte, k []byte) bool {
	for _, s := range set {
		if bytes.Equal(s, k) {
			return true
		}
	}
	return false
}

// H_Missing: seed trie in a memory store, every subset of its non-root nodes removed
// (moved to a donor store), detection checked, then repaired by MergeDB.
func H_Missing() {
	seed := vp.Param("seed", 3)
	sameVersion := vp.Param("same_version", 1)
	version := vp.Int64("version")
	// the trie's store: a flat memory store, or a layered store (block level over a base level)
	// with the seed in the block level
	var db util.NodeDB = util.NewMemoryNodeDB()
	if vp.Param("layered", 0) == 1 {
		db = util.NewLevelNodeDB(util.NewMemoryNodeDB(), util.NewMemoryNodeDB(), false)
	}
	t := mptlib.NewTrie(db, version, nil)
	ref := mptlib.NewRef()
	mptlib.ApplySeed(t, ref, seed)
	root := mptlib.Cp(t.GetRoot())
	nodes := mptlib.Reachable(db, root)
	m := len(nodes) - 1
	// lookups visit these nodes (computed on the complete store)
	visits := map[string][][]byte{}
	for _, p := range ref.Live() {
		visits[p] = mptlib.PathNodeKeys(db, root, []byte(p))
	}

	mask := vp.Choose("mask", 1<<uint(m))
	donor := util.NewMemoryNodeDB()
	var removed [][]byte
	present := make([]bool, len(nodes))
	present[0] = true
	for i := 1; i <= m; i++ {
		if mask&(1<<uint(i-1)) != 0 {
			donor.PutNode(nodes[i].Key, nodes[i].Node)
			db.DeleteNode(nodes[i].Key)
			removed = append(removed, nodes[i].Key)
		} else {
			present[i] = true
		}
	}
	// frontier: removed nodes all of whose ancestors are present
	var frontier [][]byte
	for i := 1; i <= m; i++ {
		if present[i] {
			continue
		}
		ok := true
		for a := nodes[i].Parent; a >= 0; a = nodes[a].Parent {
			if !present[a] {
				ok = false
			}
		}
		if ok {
			frontier = append(frontier, nodes[i].Key)
		}
	}
	donorEnc := map[string][]byte{}
	for _, k := range removed {
		n, _ := donor.GetNode(k)
		donorEnc[string(k)] = n.Encode()
	}

	v2 := version
	if sameVersion == 0 {
		v2 = vp.Int64("version2")
		vp.Assume(v2 != version)
	}
	t2 := mptlib.NewTrie(db, v2, root) // fresh trie, fresh cache

	var hasMissing bool
	var err error
	if vp.NoPanic("C17.nopanic", func() { hasMissing, err = t2.HasMissingNodes(context.TODO()) }) {
		return
	}
	vp.Assert("C17.hasmissing-noerr", err == nil)
	vp.Assert("C17.hasmissing-exact", hasMissing == (mask != 0))

	var all []util.Key
	if vp.NoPanic("C17.nopanic", func() { all, _ = t2.GetAllMissingNodes() }) {
		return
	}
	vp.Assert("C17.allmissing-count", len(all) == len(frontier))
	for _, k := range all {
		vp.Assert("C17.allmissing-is-frontier", has(frontier, k))
	}
	for _, k := range frontier {
		found := false
		for _, a := range all {
			if bytes.Equal(a, k) {
				found = true
			}
		}
		vp.Assert("C17.frontier-reported", found)
	}
	for _, k := range t2.GetMissingNodeKeys() {
		vp.Assert("C17.missingkeys-are-absent", has(removed, k))
	}

	// lookups: under an absent node an error (never a value, never 'not present'); elsewhere correct
	for _, p := range ref.Live() {
		broken := false
		for _, k := range visits[p] {
			if has(removed, k) {
				broken = true
			}
		}
		var got []byte
		var lerr error
		if vp.NoPanic("C17.nopanic", func() { got, lerr = t2.GetNodeValueRaw(util.Path(p)) }) {
			return
		}
		if broken {
			vp.Assert("C17.lookup-under-absent-fails", lerr != nil && lerr != util.ErrValueNotPresent)
		} else {
			vp.Assert("C17.lookup-elsewhere-ok", lerr == nil && mptlib.BytesEq(got, ref.M[p]))
		}
	}
	vp.Observe("missing", hasMissing, len(all), len(removed))

	// repair from the donor
	if vp.NoPanic("C17.nopanic", func() { err = t2.MergeDB(donor, root, nil) }) {
		return
	}
	vp.Assert("C17.mergedb-noerr", err == nil)
	vp.Assert("C17.root-unchanged", bytes.Equal(t2.GetRoot(), root))
	t3 := mptlib.NewTrie(db, v2, root) // read the repaired store through a fresh cache
	if vp.NoPanic("C17.nopanic", func() {
		hm, herr := t3.HasMissingNodes(context.TODO())
		vp.Assert("C17.repaired-complete", herr == nil && !hm)
		mptlib.CheckContent("C17.repaired", t3, ref)
	}) {
		return
	}
	for _, k := range removed {
		n, gerr := donor.GetNode(k)
		vp.Assert("C17.donor-keeps-node", gerr == nil)
		if gerr == nil {
			vp.Assert("C17.donor-unchanged", mptlib.BytesEq(n.Encode(), donorEnc[string(k)]))
		}
	}
	vp.Cover("C17.done")
}
