// Package c16: C16 — concurrent use of one state trie is linearizable and race-free.
package c16

import (
	"bytes"
	"context"
	"sync"

	"github.com/0chain/common/core/util"

	"verifharness/mptlib"
	"verifharness/vp"
)

var Harnesses = map[string]func(){
	"H_Linear":  H_Linear,
	"H_Missing": H_Missing,
}

const (
	opInsert = iota
	opDelete
	opLookup
	opIterate
	opChanges
	opSave
)

type opRec struct {
	kind      int
	path      []byte
	value     []byte // inserted value
	call, ret int
	err       error
	got       []byte        // lookup result
	pairs     []mptlib.Pair // iterate result
	nchanges  int
}

var pathPool = []string{"00", "0a", "a0", "", "0a0a"}

// H_Linear: g goroutines each run a script of n operations on one shared trie (complete
// store); every schedule at lock/atomic granularity within the pre-emption bound is
// explored, the happens-before monitor watches every access, and the observed results
// must be explained by some sequential order compatible with call/return order.
func H_Linear() {
	g := vp.Param("goroutines", 2)
	n := vp.Param("ops", 1)
	seed := vp.Param("seed", 1)
	npaths := vp.Param("paths", 3)
	kinds := vp.Param("kinds", 6)
	vp.ExploreSchedules(vp.Param("preempt", 2))
	vp.YieldAtLocks(true)
	vp.RaceDetect(true)

	version := vp.Int64("version")
	db := util.NewLevelNodeDB(util.NewMemoryNodeDB(), util.NewMemoryNodeDB(), false)
	t := mptlib.NewTrie(db, version, nil)
	ref := mptlib.NewRef()
	mptlib.ApplySeed(t, ref, seed)
	persist := util.NewMemoryNodeDB()

	// scripts are chosen before the goroutines start
	scripts := make([][]*opRec, g)
	for i := 0; i < g; i++ {
		for j := 0; j < n; j++ {
			r := &opRec{kind: vp.Choose("kind", kinds)}
			if r.kind <= opLookup {
				r.path = []byte(pathPool[vp.Choose("path", npaths)])
			}
			if r.kind == opInsert {
				r.value = vp.Bytes("val", 1)
			}
			scripts[i] = append(scripts[i], r)
		}
	}
	var hmu sync.Mutex
	clock := 0
	tick := func() int {
		hmu.Lock()
		defer hmu.Unlock()
		clock++
		return clock
	}
	for i := 0; i < g; i++ {
		script := scripts[i]
		vp.Go(func() {
			for _, r := range script {
				r.call = tick()
				switch r.kind {
				case opInsert:
					_, r.err = t.Insert(util.Path(mptlib.Cp(r.path)), mptlib.Val(r.value))
				case opDelete:
					_, r.err = t.Delete(util.Path(mptlib.Cp(r.path)))
				case opLookup:
					r.got, r.err = t.GetNodeValueRaw(util.Path(mptlib.Cp(r.path)))
				case opIterate:
					r.pairs, r.err = mptlib.IterateValues(t)
				case opChanges:
					_, ch, _, _ := t.GetChanges()
					r.nchanges = len(ch)
					// a consumer of the change set looks at the records it was given
					for _, c := range ch {
						if c.New == nil {
							r.nchanges = -1
						}
						_ = c.Old
					}
					_ = t.GetMissingNodeKeys()
					_ = t.GetChangeCount()
				case opSave:
					r.err = t.SaveChanges(context.Background(), persist, false)
				}
				r.ret = tick()
			}
		})
	}
	pan := vp.NoPanic("C16.nopanic", func() { vp.Wait() })
	if pan {
		return
	}

	// linearizability: some total order compatible with call/return order explains all results
	var ops []*opRec
	for _, s := range scripts {
		ops = append(ops, s...)
	}
	explained := false
	finalOK := false
	perm := make([]int, len(ops))
	used := make([]bool, len(ops))
	var rec func(depth int)
	rec = func(depth int) {
		if depth == len(ops) {
			// real-time order
			for a := 0; a < len(ops); a++ {
				for b := a + 1; b < len(ops); b++ {
					if ops[perm[b]].ret < ops[perm[a]].call {
						return
					}
				}
			}
			m := ref.Clone()
			ok := true
			for _, i := range perm {
				r := ops[i]
				switch r.kind {
				case opInsert:
					ok = vp.And(ok, r.err == nil)
					m.Put(r.path, r.value)
				case opDelete:
					if m.Has(r.path) {
						ok = vp.And(ok, r.err == nil)
						m.Del(r.path)
					} else {
						ok = vp.And(ok, r.err == util.ErrValueNotPresent)
					}
				case opLookup:
					if want, live := m.M[string(r.path)]; live {
						ok = vp.And(ok, vp.And(r.err == nil, mptlib.BytesEq(r.got, want)))
					} else {
						ok = vp.And(ok, r.err == util.ErrValueNotPresent)
					}
				case opIterate:
					ok = vp.And(ok, r.err == nil && len(r.pairs) == len(m.M))
					for _, p := range r.pairs {
						want, live := m.M[p.Path]
						ok = vp.And(ok, live)
						if live {
							ok = vp.And(ok, mptlib.BytesEq(p.Value, want))
						}
					}
				case opSave:
					ok = vp.And(ok, r.err == nil)
				}
			}
			explained = vp.Or(explained, ok)
			// final content equals this sequential execution
			fin := ok
			for _, p := range m.Paths() {
				want, live := m.M[p]
				got, err := t.GetNodeValueRaw(util.Path(p))
				if live {
					fin = vp.And(fin, vp.And(err == nil, mptlib.BytesEq(got, want)))
				} else {
					fin = vp.And(fin, err == util.ErrValueNotPresent)
				}
			}
			finalOK = vp.Or(finalOK, fin)
			return
		}
		for i := range ops {
			if !used[i] {
				used[i] = true
				perm[depth] = i
				rec(depth + 1)
				used[i] = false
			}
		}
	}
	rec(0)
	vp.Assert("C16.linearizable", explained)
	vp.Assert("C16.final-content-is-sequential", finalOK)
	vp.Observe("ops", len(ops))
	vp.Cover("C16.done")
}

// H_Missing: readers run into nodes absent from the store concurrently.
func H_Missing() {
	seed := vp.Param("seed", 3)
	vp.ExploreSchedules(vp.Param("preempt", 2))
	vp.YieldAtLocks(true)
	vp.RaceDetect(true)
	version := vp.Int64("version")
	db := util.NewMemoryNodeDB()
	t0 := mptlib.NewTrie(db, version, nil)
	ref := mptlib.NewRef()
	mptlib.ApplySeed(t0, ref, seed)
	root := mptlib.Cp(t0.GetRoot())
	nodes := mptlib.Reachable(db, root)
	// remove every leaf: lookups below them fail
	for _, nd := range nodes[1:] {
		if _, ok := nd.Node.(*util.LeafNode); ok {
			db.DeleteNode(nd.Key)
		}
	}
	t := mptlib.NewTrie(db, version, root)
	live := ref.Live()
	results := make([]error, 2)
	kinds := make([]int, 2)
	for i := 0; i < 2; i++ {
		i := i
		p := []byte(live[vp.Choose("path", len(live))])
		// goroutine 0 looks up or overwrites a path under an absent node, goroutine 1 looks up or
		// reads the list of missing keys
		kinds[i] = vp.Choose("mkind", vp.Param("mkinds", 2))
		vp.Go(func() {
			switch {
			case kinds[i] == 0:
				_, results[i] = t.GetNodeValueRaw(util.Path(p))
			case i == 0:
				_, results[i] = t.Insert(util.Path(mptlib.Cp(p)), mptlib.Val([]byte{0x42}))
			default:
				_ = t.GetMissingNodeKeys()
				results[i] = util.ErrNodeNotFound
			}
		})
	}
	if vp.NoPanic("C16.nopanic", func() { vp.Wait() }) {
		return
	}
	for i := range results {
		vp.Assert("C16.lookup-under-absent-node-errors", results[i] != nil && results[i] != util.ErrValueNotPresent)
	}
	_ = bytes.Equal
	vp.Cover("C16.missing.done")
}
