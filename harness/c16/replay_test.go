package c16

import (
	"testing"

	"github.com/0chain/common/core/logging"
	"github.com/linxGnu/grocksdb"
	"go.uber.org/zap"

	"verifharness/vp"
)

func TestReplay(t *testing.T) {
	logging.Logger = zap.NewNop()
	if err := vp.RunBatch(Harnesses, grocksdb.VerifReset); err != nil {
		t.Fatal(err)
	}
}
