// Package c10: C10 — block proofs verify for the honest trie and cannot be forged.
package c10

import (
	"bytes"

	"github.com/fxamacker/cbor/v2"

	"github.com/0chain/common/core/encryption"
	"github.com/0chain/common/core/util/wmpt"

	"verifharness/vp"
	"verifharness/wmptlib"
)

var Harnesses = map[string]func(){
	"H_Proof": H_Proof,
}

func be64(w uint64) []byte {
	b := make([]byte, 8)
	for i := 0; i < 8; i++ {
		b[i] = byte(w >> (8 * uint(7-i)))
	}
	return b
}

func buildTrie(name string, pool [][]byte, n int, wshift int) (*wmpt.WeightedMerkleTrie, *wmptlib.Ref) {
	return buildTrieOn(name, pool, n, wshift, nil)
}

func buildTrieOn(name string, pool [][]byte, n int, wshift int, db *wmptlib.MemStore) (*wmpt.WeightedMerkleTrie, *wmptlib.Ref) {
	var t *wmpt.WeightedMerkleTrie
	if db != nil {
		t = wmpt.New(nil, db)
	} else {
		t = wmpt.New(nil, nil)
	}
	ref := wmptlib.NewRef()
	for i := 0; i < n; i++ {
		pb := vp.Byte(name + ".payload")
		w := (uint64(pb) + 1) << uint(wshift)
		val := []byte{pb, 0x5a, byte(i)}
		if err := t.Update(pool[i], val, w); err != nil {
			panic(err)
		}
		ref.Put(pool[i], val, w)
	}
	return t, ref
}

func decodePairs(proof []byte) *wmpt.PersistTrie {
	pt := &wmpt.PersistTrie{}
	if err := cbor.Unmarshal(proof, pt); err != nil {
		panic(err)
	}
	return pt
}

func encodePairs(pt *wmpt.PersistTrie) []byte {
	b, err := cbor.Marshal(pt)
	if err != nil {
		panic(err)
	}
	return b
}

func decodeNode(b []byte) *wmpt.PersistNodeBase {
	pn := &wmpt.PersistNodeBase{}
	if err := cbor.Unmarshal(b, pn); err != nil {
		panic(err)
	}
	return pn
}

func encodeNode(pn *wmpt.PersistNodeBase) []byte {
	b, err := cbor.Marshal(pn)
	if err != nil {
		panic(err)
	}
	return b
}

// H_Proof: honest proofs verify; structured tampering of an honest proof (of any block of
// the same trie) must never make the verifier return the trusted root together with a
// value other than that of the block's true owner.
func H_Proof() {
	n := vp.Param("keys", 2)
	poolSel := vp.Param("poolsel", 0)
	wshift := vp.Param("wshift", 0)
	all := wmptlib.Pool()
	var pool [][]byte
	switch poolSel {
	case 0:
		pool = [][]byte{all[0], all[4], all[7]} // split at the first nibble: root is a branch
	case 1:
		pool = [][]byte{all[0], all[1], all[2]} // long shared prefix: root is a short node
	case 3:
		// as 1, with non-zero leading nibbles (a shared-prefix node's key read as a number is not 0)
		for _, k := range [][]byte{all[0], all[1], all[2]} {
			c := append([]byte{}, k...)
			c[0], c[1], c[2], c[3] = 0x11, 0x11, 0x11, 0x11
			pool = append(pool, c)
		}
	default:
		pool = [][]byte{all[0], all[3], all[4], all[5]}
	}
	// the prover: an in-memory trie, one committed to storage with its lower levels collapsed to
	// hash references, or one reopened from its root hash
	prover := 0
	if np := vp.Param("provers", 1); np > 1 {
		prover = vp.Choose("prover", np)
	}
	var db *wmptlib.MemStore
	if prover > 0 {
		db = wmptlib.NewMemStore()
	}
	t, ref := buildTrieOn("t", pool, n, wshift, db)
	if prover > 0 {
		lvl := []int{0, 1, 2}[vp.Choose("collapse", 3)]
		var cerr error
		if vp.NoPanic("C10.nopanic", func() {
			b, e := t.Commit(lvl)
			cerr = e
			if e == nil {
				cerr = b.Commit(false)
			}
		}) {
			return
		}
		vp.Assert("C10.commit-ok", cerr == nil)
		if prover == 2 {
			t = wmpt.New(wmpt.NewHashNode(append([]byte{}, t.Root()...), t.Weight()), db)
		}
		vp.Cover("C10.stored-prover")
	}
	es := ref.Sorted()
	total := ref.Total()
	var trusted []byte
	if vp.NoPanic("C10.nopanic", func() { trusted = append([]byte{}, t.Root()...) }) {
		return
	}

	b := vp.Uint64("block")
	vp.Assume(b >= 1)
	vp.Assume(b <= total)
	ownerValueIs := func(val []byte) bool {
		ok := false
		for i := range es {
			ok = vp.Or(ok, vp.And(wmptlib.OwnerIs(es, i, b), wmptlib.BytesEq(val, es[i].Value)))
		}
		return ok
	}

	// honest part
	var key, proof []byte
	var err error
	if vp.NoPanic("C10.nopanic", func() { key, proof, err = t.GetBlockProof(b) }) {
		return
	}
	vp.Assert("C10.honest-proof-produced", err == nil)
	if err != nil {
		return
	}
	_ = key
	var hash, val []byte
	if vp.NoPanic("C10.nopanic", func() { hash, val, err = wmpt.New(nil, nil).VerifyBlockProof(b, proof) }) {
		return
	}
	vp.Assert("C10.honest-proof-verifies", err == nil)
	if err == nil {
		vp.Assert("C10.honest-root", bytes.Equal(hash, trusted))
		vp.Assert("C10.honest-value-is-owners", ownerValueIs(val))
	}
	vp.Observe("honest", err == nil, bytes.Equal(hash, trusted))

	if prover > 0 {
		// the forgery part concerns the verifier only and is run with the in-memory prover
		vp.Cover("C10.done")
		return
	}
	// forgery part: start from the honest proof of any block b2 of the same trie
	kind := vp.Choose("tamper", vp.Param("tampers", 10))
	if ok := vp.Param("onlykind", -1); ok >= 0 && kind != ok {
		vp.Assume(false)
	}
	if kind == 0 {
		vp.Cover("C10.done")
		return
	}
	b2 := vp.Uint64("block2")
	vp.Assume(b2 >= 1)
	vp.Assume(b2 <= total)
	var proof2 []byte
	if vp.NoPanic("C10.nopanic", func() { _, proof2, err = t.GetBlockProof(b2) }) {
		return
	}
	if err != nil {
		return
	}
	pt := decodePairs(proof2)
	np := len(pt.Pairs)
	region := false // known-finding region: re-weighting that preserves the sum
	switch kind {
	case 1: // re-weight the children of one branch element with fresh symbolic weights
		i := vp.Choose("elem", np)
		pn := decodeNode(pt.Pairs[i].Value)
		if pn.Branch == nil {
			vp.Assume(false)
		}
		var oldSum, newSum uint64
		for j, c := range pn.Branch.Children {
			if len(c) >= 40 {
				var w uint64
				for q := 32; q < 40; q++ {
					w = w<<8 | uint64(c[q])
				}
				x := vp.Uint64("x")
				vp.Assume(x < 1<<44)
				oldSum += w
				newSum += x
				nc := append([]byte{}, c...)
				copy(nc[32:40], be64(x))
				pn.Branch.Children[j] = nc
			}
		}
		region = oldSum == newSum
		pt.Pairs[i].Value = encodeNode(pn)
	case 2: // swap two child entries of a branch
		i := vp.Choose("elem", np)
		pn := decodeNode(pt.Pairs[i].Value)
		if pn.Branch == nil {
			vp.Assume(false)
		}
		var present []int
		for j, c := range pn.Branch.Children {
			if len(c) > 0 {
				present = append(present, j)
			}
		}
		if len(present) < 2 {
			vp.Assume(false)
		}
		j1 := present[0]
		j2 := present[1+vp.Choose("swapwith", len(present)-1)]
		pn.Branch.Children[j1], pn.Branch.Children[j2] = pn.Branch.Children[j2], pn.Branch.Children[j1]
		pt.Pairs[i].Value = encodeNode(pn)
	case 3: // substitute an element by another element of this proof or of another trie's proof
		i := vp.Choose("elem", np)
		if vp.Choose("source", 2) == 0 {
			j := vp.Choose("from", np)
			pt.Pairs[i] = &wmpt.PersistTriePair{Value: pt.Pairs[j].Value}
		} else {
			t3, r3 := buildTrie("o", pool, n, wshift)
			b3 := vp.Uint64("block3")
			vp.Assume(b3 >= 1)
			vp.Assume(b3 <= r3.Total())
			_, proof3, e3 := t3.GetBlockProof(b3)
			if e3 != nil {
				vp.Assume(false)
			}
			p3 := decodePairs(proof3)
			j := vp.Choose("from", len(p3.Pairs))
			pt.Pairs[i] = &wmpt.PersistTriePair{Value: p3.Pairs[j].Value}
		}
	case 4: // drop an element
		i := vp.Choose("elem", np)
		pt.Pairs = append(append([]*wmpt.PersistTriePair{}, pt.Pairs[:i]...), pt.Pairs[i+1:]...)
	case 5: // duplicate an element
		i := vp.Choose("elem", np)
		dup := append([]*wmpt.PersistTriePair{}, pt.Pairs[:i+1]...)
		pt.Pairs = append(dup, pt.Pairs[i:]...)
	case 6: // overwrite two bytes of a hash or value field with arbitrary bytes
		i := vp.Choose("elem", np)
		pn := decodeNode(pt.Pairs[i].Value)
		x0, x1 := vp.Byte("flip0"), vp.Byte("flip1")
		switch {
		case pn.Value != nil:
			if vp.Choose("field", 2) == 0 && len(pn.Value.Value) >= 2 {
				v := append([]byte{}, pn.Value.Value...)
				v[0], v[1] = x0, x1
				pn.Value.Value = v
			} else {
				h := append([]byte{}, pn.Value.Hash...)
				h[0], h[31] = x0, x1
				pn.Value.Hash = h
			}
		case pn.Short != nil:
			if vp.Choose("field", 2) == 0 {
				h := append([]byte{}, pn.Short.Value...)
				h[0], h[31] = x0, x1
				pn.Short.Value = h
			} else {
				k := append([]byte{}, pn.Short.Key...)
				k[0], k[len(k)-1] = x0, x1
				pn.Short.Key = k
			}
		case pn.Branch != nil:
			var present []int
			for j, c := range pn.Branch.Children {
				if len(c) > 0 {
					present = append(present, j)
				}
			}
			j := present[vp.Choose("child", len(present))]
			c := append([]byte{}, pn.Branch.Children[j]...)
			c[0], c[31] = x0, x1
			pn.Branch.Children[j] = c
		default:
			vp.Assume(false)
		}
		pt.Pairs[i].Value = encodeNode(pn)
	}
	if kind == 7 {
		// substitute a branch element by a VALUE node whose value is the concatenation of the
		// branch's child hashes and whose weight is the branch's weight, and end the proof there
		// (node hashes carry no type tag)
		i := vp.Choose("elem", np)
		pn := decodeNode(pt.Pairs[i].Value)
		if pn.Branch == nil {
			vp.Assume(false)
		}
		var val []byte
		var w uint64
		for _, c := range pn.Branch.Children {
			if len(c) >= 40 {
				val = append(val, c[:32]...)
				var cw uint64
				for q := 32; q < 40; q++ {
					cw = cw<<8 | uint64(c[q])
				}
				w += cw
			} else {
				val = append(val, encryption.EmptyHashBytes...)
			}
		}
		for len(val) < 16*32 {
			val = append(val, encryption.EmptyHashBytes...)
		}
		fake := &wmpt.PersistNodeBase{Value: &wmpt.PersistNodeValue{Value: val, Hash: pn.Branch.Hash, Weight: w}}
		pt.Pairs = append(append([]*wmpt.PersistTriePair{}, pt.Pairs[:i]...), &wmpt.PersistTriePair{Value: encodeNode(fake)})
	}
	if kind == 8 {
		// substitute a shared-prefix (short) element by a VALUE node: the short node's hash is
		// H(key nibbles || child hash), a value node's is H(weight || value); weight := the first
		// 8 key nibbles read as a number, value := the remaining nibbles || child hash
		i := vp.Choose("elem", np)
		pn := decodeNode(pt.Pairs[i].Value)
		if pn.Short == nil || len(pn.Short.Key) < 8 || len(pn.Short.Value) < 32 {
			vp.Assume(false)
		}
		var w uint64
		for q := 0; q < 8; q++ {
			w = w<<8 | uint64(pn.Short.Key[q])
		}
		val := append(append([]byte{}, pn.Short.Key[8:]...), pn.Short.Value[:32]...)
		fake := &wmpt.PersistNodeBase{Value: &wmpt.PersistNodeValue{Value: val, Hash: pn.Short.Hash, Weight: w}}
		pt.Pairs = append(append([]*wmpt.PersistTriePair{}, pt.Pairs[:i]...), &wmpt.PersistTriePair{Value: encodeNode(fake)})
		vp.Cover("C10.short-as-value.built")
	}
	if kind == 9 {
		// lengthen the key of a shared-prefix element by its child's hash and follow it with an
		// arbitrary value element (the key length of a proof element is attacker-controlled)
		i := vp.Choose("elem", np)
		pn := decodeNode(pt.Pairs[i].Value)
		if pn.Short == nil || len(pn.Short.Value) < 40 {
			vp.Assume(false)
		}
		pn.Short.Key = append(append([]byte{}, pn.Short.Key...), pn.Short.Value[:32]...)
		var w uint64
		for q := 32; q < 40; q++ {
			w = w<<8 | uint64(pn.Short.Value[q])
		}
		fv0, fv1 := vp.Byte("forged0"), vp.Byte("forged1")
		fake := &wmpt.PersistNodeBase{Value: &wmpt.PersistNodeValue{Value: []byte{fv0, fv1, 0x77}, Hash: pn.Short.Value[:32], Weight: w}}
		pt.Pairs = append(append([]*wmpt.PersistTriePair{}, pt.Pairs[:i]...), &wmpt.PersistTriePair{Value: encodeNode(pn)}, &wmpt.PersistTriePair{Value: encodeNode(fake)})
		vp.Cover("C10.long-key.built")
	}
	forged := encodePairs(pt)
	var fh, fv []byte
	var ferr error
	// the verifier is a fresh trie, or one that has already verified the honest proof
	ver := wmpt.New(nil, nil)
	if vp.Param("reuse", 1) == 1 && vp.Choose("reused-verifier", 2) == 1 {
		if vp.NoPanic("C10.verify.nopanic", func() { ver.VerifyBlockProof(b, proof) }) {
			return
		}
	}
	if vp.NoPanic("C10.verify.nopanic", func() { fh, fv, ferr = ver.VerifyBlockProof(b, forged) }) {
		return
	}
	accepted := ferr == nil && bytes.Equal(fh, trusted)
	vp.Observe("forged", kind, accepted)
	vp.Known("C10.no-forgery", "reweight-sum-preserved", vp.And(kind == 1, region))
	vp.Known("C10.no-forgery", "branch-as-value-node", kind == 7)
	vp.Known("C10.no-forgery", "short-as-value-node", kind == 8)
	if accepted {
		vp.Assert("C10.no-forgery", ownerValueIs(fv))
		vp.Cover("C10.tampered-accepted")
	}
	vp.Cover("C10.done")
}
