package mptlib

import (
	"context"

	"github.com/linxGnu/grocksdb"

	"github.com/0chain/common/core/util"

	"verifharness/vp"
)

// Rounds drives the block protocol used by C04/C05: a persistent store, per round a
// block trie over it, child transactions merged or discarded, then a save.
type Rounds struct {
	Base  int64 // version of the seed round
	Dir   string
	PNDB  *util.PNodeDB
	Store *grocksdb.Store
	Roots [][]byte // Roots[r] = saved root of round r (round 0 = seed)
	Refs  []*Ref   // reference content per saved round
	Deads [][]util.Node
	Alpha []byte
	Lmax  int
	Label string
}

func NewRounds(label, dir string, seed int, alpha []byte, lmax int) *Rounds {
	p, err := util.NewPNodeDB(dir, dir+"/log")
	if err != nil {
		panic(err)
	}
	r := &Rounds{Dir: dir, PNDB: p, Store: grocksdb.VerifStore(dir), Alpha: alpha, Lmax: lmax, Label: label}
	// round 0: the seed, saved through the same protocol at version Base (round i runs at Base+i)
	r.Base = int64(vp.Param("seedversion", 0))
	b := NewTrie(util.NewLevelNodeDB(util.NewMemoryNodeDB(), p, false), r.Base, nil)
	ref := NewRef()
	ApplySeed(b, ref, seed)
	if err := b.SaveChanges(context.Background(), p, false); err != nil {
		panic(err)
	}
	r.Roots = append(r.Roots, Cp(b.GetRoot()))
	r.Refs = append(r.Refs, ref)
	r.Deads = append(r.Deads, nil)
	return r
}

// Op is one operation inside a child transaction.
type Op struct {
	Kind  int // 0 insert, 1 delete
	Path  []byte
	Value []byte
}

// Txn describes one child transaction of a round, chosen symbolically.
type Txn struct {
	Ops   []Op
	Merge bool
}

// ChooseTxns picks ntx transactions (each one operation) for a round.
func (r *Rounds) ChooseTxns(name string, ntx int) []Txn {
	var ts []Txn
	kinds := vp.Param("txkinds", 2) // 1: inserts only, 2: inserts and deletes
	for i := 0; i < ntx; i++ {
		nops := 1
		if i == ntx-1 {
			nops = vp.Param("lasttxops", 1) // the last transaction may hold several operations
		}
		t := Txn{}
		for j := 0; j < nops; j++ {
			kind := 0
			if pat := vp.Param("lasttxpattern", 0); pat > 0 && i == ntx-1 {
				// the kinds of the last transaction's operations are fixed by the decimal digits of
				// the pattern, most significant first (1 = insert, 2 = delete): 211 = delete, insert, insert
				d := pat
				for q := nops - 1; q > j; q-- {
					d /= 10
				}
				kind = d%10 - 1
			} else {
				kind = vp.Choose(name+".op", kinds)
			}
			o := Op{Kind: kind, Path: GenPath(name+".p", r.Alpha, r.Lmax)}
			if o.Kind == 0 {
				o.Value = GenValue(name+".v", 1)
			}
			t.Ops = append(t.Ops, o)
		}
		t.Merge = true
		if vp.Param("always_merge", 0) == 0 {
			t.Merge = vp.Choose(name+".merge", 2) == 1
		}
		ts = append(ts, t)
	}
	return ts
}

// Execute runs round `version` on top of the last saved root with the given transactions
// and returns the block trie (not yet saved) and the resulting reference content.
func (r *Rounds) Execute(version int64, txns []Txn) (*util.MerklePatriciaTrie, *Ref, bool) {
	prev := len(r.Roots) - 1
	b := NewTrie(util.NewLevelNodeDB(util.NewMemoryNodeDB(), r.PNDB, false), version, r.Roots[prev])
	ref := r.Refs[prev].Clone()
	ok := true
	for _, tx := range txns {
		c := NewTrie(util.NewLevelNodeDB(util.NewMemoryNodeDB(), b.GetNodeDB(), false), version, b.GetRoot())
		cref := ref.Clone()
		var err error
		if vp.NoPanic(r.Label+".nopanic", func() {
			for _, o := range tx.Ops {
				if o.Kind == 0 {
					_, err = c.Insert(util.Path(Cp(o.Path)), Val(o.Value))
					cref.Put(o.Path, o.Value)
				} else {
					_, err = c.Delete(util.Path(Cp(o.Path)))
					if err == nil {
						cref.Del(o.Path)
					}
				}
			}
		}) {
			return nil, nil, false
		}
		if tx.Merge {
			var merr error
			if vp.NoPanic(r.Label+".nopanic", func() { merr = b.MergeMPTChanges(c) }) {
				return nil, nil, false
			}
			vp.Assert(r.Label+".merge-ok", merr == nil)
			ref = cref
		}
	}
	return b, ref, ok
}

// Save persists the block trie's changes (no immediate deletes) and records the round.
func (r *Rounds) Save(b *util.MerklePatriciaTrie, ref *Ref) bool {
	var err error
	if vp.NoPanic(r.Label+".nopanic", func() { err = b.SaveChanges(context.Background(), r.PNDB, false) }) {
		return false
	}
	vp.Assert(r.Label+".save-ok", err == nil)
	r.Roots = append(r.Roots, Cp(b.GetRoot()))
	r.Refs = append(r.Refs, ref)
	r.Deads = append(r.Deads, b.GetDeletes())
	return true
}

// CheckSaved asserts that round j reads completely and correctly from the persistent store alone.
func (r *Rounds) CheckSaved(lbl string, j int) bool {
	return !vp.NoPanic(r.Label+".nopanic", func() {
		t := NewTrie(r.PNDB, int64(j), r.Roots[j])
		hm, err := t.HasMissingNodes(context.Background())
		vp.Assert(lbl+".no-missing-nodes", err == nil && !hm)
		all, _ := t.GetAllMissingNodes()
		vp.Assert(lbl+".allmissing-empty", len(all) == 0)
		CheckContent(lbl, NewTrie(r.PNDB, int64(j), r.Roots[j]), r.Refs[j])
	})
}
