// Package mptlib: shared pieces of the state-trie harnesses (C01–C05, C14, C16, C17):
// path/value generators, reference map, seeds, read-out of a trie's content.
package mptlib

import (
	"context"
	"sort"

	"github.com/0chain/common/core/statecache"
	"github.com/0chain/common/core/util"

	"verifharness/vp"
)

// Alphabet returns the nibble alphabet of size n (digit class, letter class, first/last slot).
func Alphabet(n int) []byte {
	switch n {
	case 1:
		return []byte("a")
	case 2:
		return []byte("0a")
	case 3:
		return []byte("09f")
	default:
		return []byte("09af")
	}
}

// GenPath chooses an even-length path of at most lmax nibbles over the alphabet
// (every choice is enumerated by the explorer).
func GenPath(name string, alpha []byte, lmax int) []byte {
	l := 2 * vp.Choose(name+".len", lmax/2+1)
	p := make([]byte, l)
	for i := range p {
		p[i] = alpha[vp.Choose(name+".n", len(alpha))]
	}
	return p
}

// GenValue returns a value of 1..maxLen fully symbolic bytes.
func GenValue(name string, maxLen int) []byte {
	n := 1 + vp.Choose(name+".len", maxLen)
	return vp.Bytes(name, n)
}

func Val(b []byte) *util.SecureSerializableValue {
	c := make([]byte, len(b))
	copy(c, b)
	return &util.SecureSerializableValue{Buffer: c}
}

func Cp(b []byte) []byte {
	c := make([]byte, len(b))
	copy(c, b)
	return c
}

// Ref is the reference map: path (concrete string) -> value bytes (possibly symbolic).
type Ref struct {
	M        map[string][]byte
	Universe map[string]bool // every path ever mentioned
}

func NewRef() *Ref { return &Ref{M: map[string][]byte{}, Universe: map[string]bool{}} }

func (r *Ref) Clone() *Ref {
	c := NewRef()
	for k, v := range r.M {
		c.M[k] = v
	}
	for k := range r.Universe {
		c.Universe[k] = true
	}
	return c
}

func (r *Ref) Put(p []byte, v []byte) { r.M[string(p)] = Cp(v); r.Universe[string(p)] = true }
func (r *Ref) Del(p []byte)           { delete(r.M, string(p)); r.Universe[string(p)] = true }
func (r *Ref) Has(p []byte) bool      { _, ok := r.M[string(p)]; return ok }
func (r *Ref) Touch(p []byte)         { r.Universe[string(p)] = true }

func (r *Ref) Paths() []string {
	var ps []string
	for k := range r.Universe {
		ps = append(ps, k)
	}
	sort.Strings(ps)
	return ps
}

func (r *Ref) Live() []string {
	var ps []string
	for k := range r.M {
		ps = append(ps, k)
	}
	sort.Strings(ps)
	return ps
}

// BytesEq compares two byte strings without short-circuit forks.
func BytesEq(a, b []byte) bool {
	if len(a) != len(b) {
		return false
	}
	eq := true
	for i := range a {
		eq = vp.And(eq, a[i] == b[i])
	}
	return eq
}

// Pair is one iterated path/value pair.
type Pair struct {
	Path  string
	Value []byte
}

// IterateValues returns every path/value pair a full iteration yields, and its error.
func IterateValues(t util.MerklePatriciaTrieI) ([]Pair, error) {
	var out []Pair
	err := t.Iterate(context.TODO(), func(ctx context.Context, path util.Path, key util.Key, node util.Node) error {
		vn, ok := node.(*util.ValueNode)
		if !ok {
			return nil
		}
		out = append(out, Pair{string(Cp(path)), Cp(vn.GetValueBytes())})
		return nil
	}, util.NodeTypeValueNode)
	return out, err
}

// CheckContent asserts that trie t reads exactly the reference content: every path of
// the universe looks up to its reference value or "not present", and a full iteration
// yields exactly the live pairs. Labels are prefixed with lbl.
func CheckContent(lbl string, t util.MerklePatriciaTrieI, r *Ref) {
	for _, p := range r.Paths() {
		want, live := r.M[p]
		got, err := t.GetNodeValueRaw(util.Path(p))
		if live {
			vp.Assert(lbl+".lookup-live", err == nil)
			if err == nil {
				vp.Assert(lbl+".lookup-value", BytesEq(got, want))
			}
		} else {
			vp.Assert(lbl+".lookup-absent", err == util.ErrValueNotPresent)
		}
	}
	pairs, err := IterateValues(t)
	vp.Assert(lbl+".iterate-noerr", err == nil)
	vp.Assert(lbl+".iterate-count", len(pairs) == len(r.M))
	seen := map[string]bool{}
	for _, pr := range pairs {
		want, live := r.M[pr.Path]
		vp.Assert(lbl+".iterate-live", live)
		vp.Assert(lbl+".iterate-nodup", !seen[pr.Path])
		seen[pr.Path] = true
		if live {
			vp.Assert(lbl+".iterate-value", BytesEq(pr.Value, want))
		}
	}
}

// NewStore creates a node store of the given kind: 0 memory, 1 layered (memory over memory), 2 persistent.
func NewStore(kind int, name string) util.NodeDB {
	switch kind {
	case 0:
		return util.NewMemoryNodeDB()
	case 1:
		return util.NewLevelNodeDB(util.NewMemoryNodeDB(), util.NewMemoryNodeDB(), false)
	default:
		p, err := util.NewPNodeDB(name, name+"/log")
		if err != nil {
			panic(err)
		}
		return p
	}
}

func NewTrie(db util.NodeDB, version int64, root util.Key) *util.MerklePatriciaTrie {
	return util.NewMerklePatriciaTrie(db, util.Sequence(version), root, statecache.NewEmpty())
}

// Seeds are concrete contents inserted through the public API before the symbolic ops.
var Seeds = [][]string{
	0:  {},
	1:  {"a0"},
	2:  {"a0", "a0b1"},         // ext(2) -> branch with value
	3:  {"a0", "a1", "b0"},     // root branch, value-less inner branch
	4:  {"aa00", "aa0a", "a0"}, // root ext(1) -> branch -> ext(1) -> branch
	5:  {"0a", "0a0a"},
	6:  {"", "a0"}, // root branch carrying a value
	7:  {"00", "0a", "a0", "aa"},
	8:  {"aaaa", "aa00"},       // ext(2) -> branch of leaves
	9:  {"a000", "a0aa", "aa"}, // ext(1) -> branch{0: ext(1)->branch, a: leaf}
	10: {"0000"},               // single long leaf
	11: {"00aa", "aa00"},       // root branch of two long leaves
	12: {"00", "a0", "90"},     // root branch; the third leaf went into an empty slot; slot f is still empty
}

// ApplySeed inserts seed number i (concrete values) into t and the reference.
func ApplySeed(t util.MerklePatriciaTrieI, r *Ref, i int) {
	for j, p := range Seeds[i] {
		v := []byte{byte(0x11 * (j + 1))}
		if _, err := t.Insert(util.Path(p), Val(v)); err != nil {
			panic(err)
		}
		r.Put([]byte(p), v)
	}
}

// NodeInfo is one node reachable from a root, in DFS order (index 0 is the root).
type NodeInfo struct {
	Key    []byte
	Parent int
	Node   util.Node
}

// Reachable walks the store from root and lists every reachable node (store must be complete).
func Reachable(db util.NodeDB, root util.Key) []NodeInfo {
	var out []NodeInfo
	var walk func(key util.Key, parent int)
	walk = func(key util.Key, parent int) {
		n, err := db.GetNode(key)
		if err != nil {
			return
		}
		idx := len(out)
		out = append(out, NodeInfo{Cp(key), parent, n})
		switch ni := n.(type) {
		case *util.FullNode:
			for _, c := range ni.Children {
				if c != nil {
					walk(c, idx)
				}
			}
		case *util.ExtensionNode:
			walk(ni.NodeKey, idx)
		}
	}
	if len(root) > 0 {
		walk(root, -1)
	}
	return out
}

// PathNodeKeys returns the keys of the nodes a lookup of path visits (complete store).
func PathNodeKeys(db util.NodeDB, root util.Key, path []byte) [][]byte {
	var keys [][]byte
	key := root
	for len(key) > 0 {
		n, err := db.GetNode(key)
		if err != nil {
			return keys
		}
		keys = append(keys, Cp(key))
		switch ni := n.(type) {
		case *util.LeafNode:
			return keys
		case *util.FullNode:
			if len(path) == 0 {
				return keys
			}
			key = ni.GetChild(path[0])
			path = path[1:]
		case *util.ExtensionNode:
			if len(path) < len(ni.Path) || string(path[:len(ni.Path)]) != string(ni.Path) {
				return keys
			}
			key = ni.NodeKey
			path = path[len(ni.Path):]
		}
	}
	return keys
}
