// Package wmptlib: shared pieces of the weighted-trie harnesses (C09–C13, C15):
// in-memory storage adapter with a write log and crash point, key pool, reference
// map and an independent re-implementation of the node-hash format.
package wmptlib

import (
	"errors"
	"sort"
	"sync"

	"github.com/0chain/common/core/encryption"
	"github.com/0chain/common/core/util/storage"
	"github.com/0chain/common/core/util/wmpt"

	"verifharness/vp"
)

// ---------------------------------------------------------------- storage

// MemStore implements storage.StorageAdapter: batch commit atomic, writes in program order.
type MemStore struct {
	M           map[string][]byte
	Writes      int // atomic writes applied or dropped
	CrashAfter  int // <0 never; else writes with index >= CrashAfter are dropped
	FailBatches int // the next FailBatches batch commits fail with ErrInjected (nothing is written)
	Log         []string
}

func NewMemStore() *MemStore { return &MemStore{M: map[string][]byte{}, CrashAfter: -1} }

func (s *MemStore) admit(what string) bool {
	i := s.Writes
	s.Writes++
	if s.CrashAfter >= 0 && i >= s.CrashAfter {
		return false
	}
	s.Log = append(s.Log, what)
	return true
}

func (s *MemStore) Get(k []byte) ([]byte, error) {
	v, ok := s.M[string(k)]
	if !ok {
		return nil, wmpt.ErrKVNotFound
	}
	c := make([]byte, len(v))
	copy(c, v)
	return c, nil
}

func (s *MemStore) Put(k, v []byte) error {
	if s.admit("put") {
		c := make([]byte, len(v))
		copy(c, v)
		s.M[string(k)] = c
	}
	return nil
}

func (s *MemStore) Delete(k []byte) error {
	if s.admit("delete") {
		delete(s.M, string(k))
	}
	return nil
}

func (s *MemStore) Close() {}

type op struct {
	del  bool
	k, v []byte
}

// Batch is safe for concurrent Put/Delete, like the Pebble adapter's batch (Commit's
// worker goroutines write to one batch concurrently).
type Batch struct {
	s   *MemStore
	ops []op
	mu  sync.Mutex
}

func (s *MemStore) NewBatch() storage.Batcher { return &Batch{s: s} }

func (b *Batch) Put(k, v []byte) error {
	kc := append([]byte{}, k...)
	vc := make([]byte, len(v))
	copy(vc, v)
	b.mu.Lock()
	defer b.mu.Unlock()
	b.ops = append(b.ops, op{false, kc, vc})
	return nil
}

func (b *Batch) Delete(k []byte) error {
	b.mu.Lock()
	defer b.mu.Unlock()
	b.ops = append(b.ops, op{true, append([]byte{}, k...), nil})
	return nil
}

// ErrInjected is the error of an injected storage fault.
var ErrInjected = errors.New("injected storage fault")

func (b *Batch) Commit(bool) error {
	if b.s.FailBatches > 0 {
		b.s.FailBatches--
		return ErrInjected
	}
	if !b.s.admit("batch") {
		return nil
	}
	for _, o := range b.ops {
		if o.del {
			delete(b.s.M, string(o.k))
		} else {
			b.s.M[string(o.k)] = o.v
		}
	}
	return nil
}

// Keys returns the stored keys sorted.
func (s *MemStore) Keys() []string {
	var ks []string
	for k := range s.M {
		ks = append(ks, k)
	}
	sort.Strings(ks)
	return ks
}

// ---------------------------------------------------------------- keys

// Pool is a set of 32-byte keys whose pairwise common prefixes have nibble lengths
// 0, 1, 2, 31, 62 and 63 (splits at the top, in the middle and at the very last nibble).
func Pool() [][]byte {
	mk := func(pos int, nib byte) []byte {
		k := make([]byte, 32)
		if pos >= 0 {
			if pos%2 == 0 {
				k[pos/2] = nib << 4
			} else {
				k[pos/2] = nib
			}
		}
		return k
	}
	return [][]byte{mk(-1, 0), mk(63, 1), mk(62, 1), mk(31, 1), mk(0, 1), mk(1, 1), mk(2, 1), mk(0, 2)}
}

// ---------------------------------------------------------------- reference

type Entry struct {
	Key    []byte
	Value  []byte
	Weight uint64
}

type Ref struct {
	M map[string]*Entry
}

func NewRef() *Ref { return &Ref{M: map[string]*Entry{}} }

func (r *Ref) Put(k, v []byte, w uint64) {
	r.M[string(k)] = &Entry{append([]byte{}, k...), append([]byte{}, v...), w}
}
func (r *Ref) Del(k []byte)      { delete(r.M, string(k)) }
func (r *Ref) Has(k []byte) bool { _, ok := r.M[string(k)]; return ok }

func (r *Ref) Clone() *Ref {
	c := NewRef()
	for k, e := range r.M {
		c.M[k] = e
	}
	return c
}

// Sorted returns the live entries in key order.
func (r *Ref) Sorted() []*Entry {
	var ks []string
	for k := range r.M {
		ks = append(ks, k)
	}
	sort.Strings(ks)
	var es []*Entry
	for _, k := range ks {
		es = append(es, r.M[k])
	}
	return es
}

func (r *Ref) Total() uint64 {
	var t uint64
	for _, e := range r.Sorted() {
		t += e.Weight
	}
	return t
}

// MkValue builds a value whose last 8 bytes carry the weight (so that a key's weight is
// determined by its value) preceded by the given payload bytes.
func MkValue(payload []byte, w uint64) []byte {
	v := append([]byte{}, payload...)
	for i := 7; i >= 0; i-- {
		v = append(v, byte(w>>(8*uint(i))))
	}
	return v
}

// ---------------------------------------------------------------- independent root computation

func be64(w uint64) []byte {
	b := make([]byte, 8)
	for i := 0; i < 8; i++ {
		b[i] = byte(w >> (8 * uint(7-i)))
	}
	return b
}

func nibbles(k []byte) []byte {
	n := make([]byte, 0, 2*len(k))
	for _, b := range k {
		n = append(n, b>>4, b&15)
	}
	return n
}

type rent struct {
	rest   []byte
	value  []byte
	weight uint64
}

var emptyHash = encryption.RawHash("")

// node returns (hash, weight) of the canonical subtree for entries es (all rests non-empty
// or a single entry with an empty rest).
func node(es []rent) ([]byte, uint64) {
	if len(es) == 0 {
		return nil, 0
	}
	if len(es) == 1 {
		vh := encryption.RawHash(append(be64(es[0].weight), es[0].value...))
		if len(es[0].rest) == 0 {
			return vh, es[0].weight
		}
		return encryption.RawHash(append(append([]byte{}, es[0].rest...), vh...)), es[0].weight
	}
	// common prefix
	c := es[0].rest
	for _, e := range es[1:] {
		n := 0
		for n < len(c) && n < len(e.rest) && c[n] == e.rest[n] {
			n++
		}
		c = c[:n]
	}
	if len(c) > 0 {
		var sub []rent
		for _, e := range es {
			sub = append(sub, rent{e.rest[len(c):], e.value, e.weight})
		}
		bh, w := branch(sub)
		return encryption.RawHash(append(append([]byte{}, c...), bh...)), w
	}
	return branch(es)
}

func branch(es []rent) ([]byte, uint64) {
	var total uint64
	var body []byte
	for x := byte(0); x < 16; x++ {
		var sub []rent
		for _, e := range es {
			if e.rest[0] == x {
				sub = append(sub, rent{e.rest[1:], e.value, e.weight})
			}
		}
		h, w := node(sub)
		if h == nil {
			h = emptyHash
		}
		total += w
		body = append(body, h...)
	}
	return encryption.RawHash(append(be64(total), body...)), total
}

// RefRoot recomputes the root hash from the live (key, value, weight) set by specification.
func RefRoot(r *Ref) []byte {
	var es []rent
	for _, e := range r.Sorted() {
		es = append(es, rent{nibbles(e.Key), e.Value, e.Weight})
	}
	if len(es) == 0 {
		return emptyHash
	}
	h, _ := node(es)
	return h
}

// Owner returns the index (in key order) of the entry whose cumulative-weight interval
// contains block b (1-based), deciding symbolically without short-circuit forks.
func OwnerIs(es []*Entry, i int, b uint64) bool {
	var lo uint64
	for j := 0; j < i; j++ {
		lo += es[j].Weight
	}
	return vp.And(b > lo, b <= lo+es[i].Weight)
}

func BytesEq(a, b []byte) bool {
	if len(a) != len(b) {
		return false
	}
	eq := true
	for i := range a {
		eq = vp.And(eq, a[i] == b[i])
	}
	return eq
}
