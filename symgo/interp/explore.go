package interp

// Worker side of the explorer: load once, then execute one path per request.

import (
	"bufio"
	"encoding/json"
	"fmt"
	"go/token"
	"io"
	"os"
	"runtime"
	"runtime/debug"
	"sort"
	"strings"

	"golang.org/x/tools/go/packages"
	"golang.org/x/tools/go/ssa"
	"golang.org/x/tools/go/ssa/ssautil"

	"symgo/smt"
)

// LoadConfig describes how to load the target program.
type LoadConfig struct {
	Dir        string            `json:"dir"`      // harness module dir
	Patterns   []string          `json:"patterns"` // packages to load
	Tags       []string          `json:"tags"`
	Overlay    map[string]string `json:"overlay"` // path -> replacement file path
	InterpPkgs []string          `json:"interp_pkgs"`
	Env        []string          `json:"env"`
	Solver     string            `json:"solver"` // primary solver: "z3" (default) or "cvc5-int"
}

// Request is one unit of work for a worker.
type Request struct {
	ID         int              `json:"id"`
	Pkg        string           `json:"pkg"`  // package path of the harness
	Func       string           `json:"func"` // harness function name
	Item       WorkItem         `json:"item"`
	Params     map[string]int64 `json:"params"`
	Budget     int64            `json:"budget"`
	TimeoutMs  int              `json:"timeout_ms"`
	CrossCheck bool             `json:"cross_check"`
	Trace      bool             `json:"trace"`
}

type Response struct {
	ID     int         `json:"id"`
	Result *PathResult `json:"result"`
}

// DefaultInterpPkgs are interpreted (and initialised) in every run.
var DefaultInterpPkgs = []string{
	"errors", "internal/errors", "io", "bytes", "strings", "strconv", "sort", "slices", "math", "math/bits", "unicode/utf8",
	"encoding/hex", "encoding/binary", "container/list", "container/ring", "internal/bytealg", "internal/itoa",
	"sync", "sync/atomic", "cmp", "internal/stringslite", "iter", "maps", "unique", "internal/race", "internal/byteorder",
	"bufio", "time", "context", "io/ioutil",
	"golang.org/x/sync/errgroup", "github.com/hashicorp/golang-lru", "github.com/hashicorp/golang-lru/simplelru", "go.uber.org/atomic",
	"github.com/linxGnu/grocksdb", "github.com/tinylib/msgp/msgp",
	"github.com/0chain/common/core/common", "github.com/0chain/common/core/encryption", "github.com/0chain/common/core/logging",
	"github.com/0chain/common/core/statecache", "github.com/0chain/common/core/util", "github.com/0chain/common/core/currency",
	"github.com/0chain/common/core/util/wmpt", "github.com/0chain/common/core/util/storage",
	"verifharness/vp", "verifharness/mptlib",
}

type Program struct {
	Prog        *ssa.Program
	Pkgs        map[string]*ssa.Package
	InterpPkgs  map[string]bool
	LoadSeconds float64
}

func Load(cfg LoadConfig) (*Program, error) {
	pc := &packages.Config{
		Mode: packages.LoadAllSyntax,
		Dir:  cfg.Dir,
		Env:  append(os.Environ(), cfg.Env...),
	}
	if len(cfg.Tags) > 0 {
		pc.BuildFlags = []string{"-tags=" + strings.Join(cfg.Tags, ",")}
	}
	if len(cfg.Overlay) > 0 {
		pc.Overlay = map[string][]byte{}
		for k, v := range cfg.Overlay {
			b, err := os.ReadFile(v)
			if err != nil {
				return nil, err
			}
			pc.Overlay[k] = b
		}
	}
	initial, err := packages.Load(pc, cfg.Patterns...)
	if err != nil {
		return nil, err
	}
	var errs []string
	packages.Visit(initial, nil, func(p *packages.Package) {
		for _, e := range p.Errors {
			errs = append(errs, e.Error())
		}
	})
	if len(errs) > 0 {
		return nil, fmt.Errorf("load errors:\n%s", strings.Join(errs, "\n"))
	}
	prog, _ := ssautil.AllPackages(initial, ssa.InstantiateGenerics)
	ip := map[string]bool{}
	for _, p := range DefaultInterpPkgs {
		ip[p] = true
	}
	for _, p := range cfg.InterpPkgs {
		ip[p] = true
	}
	res := &Program{Prog: prog, Pkgs: map[string]*ssa.Package{}, InterpPkgs: ip}
	for _, p := range prog.AllPackages() {
		res.Pkgs[p.Pkg.Path()] = p
		if ip[p.Pkg.Path()] {
			p.Build()
		}
	}
	// the runtime package is needed only for its errorString type
	return res, nil
}

// RunPath executes one path of the harness function and returns its result.
func (p *Program) RunPath(req *Request, proc *smt.Proc) (res *PathResult) {
	pkg := p.Pkgs[req.Pkg]
	if pkg == nil {
		return &PathResult{Outcome: "engine-error", Detail: "no package " + req.Pkg}
	}
	fn := pkg.Func(req.Func)
	if fn == nil {
		return &PathResult{Outcome: "engine-error", Detail: "no function " + req.Func}
	}
	budget := req.Budget
	if budget == 0 {
		budget = 200_000_000
	}
	if req.TimeoutMs > 0 {
		proc.Timeout = req.TimeoutMs
	}
	I = newInterpreter(p.Prog, p.InterpPkgs)
	I.tracing = req.Trace
	G = newPathState(req.Item, req.Params, proc, budget)
	G.crossCheck = req.CrossCheck
	S = newScheduler()
	raceReset()
	syncReset()
	envReset()
	unwinding = false
	lastDecimal = nil
	g0 := smt.GStats
	defer func() {
		S.shutdown()
		r := recover()
		outcome, detail := "ok", ""
		switch r := r.(type) {
		case nil:
		case pathEnd:
			outcome, detail = r.outcome, r.detail
		case goroutinePanic:
			outcome, detail = "engine-error", "goroutine panic outside NoPanic: "+panicMessage(r.p)
		default:
			// a target panic escaping the harness itself (outside NoPanic) or an engine bug
			if tp, ok := r.(targetPanic); ok {
				outcome, detail = "harness-panic", panicMessage(tp)+" @ "+lastPanicSite
			} else if re, ok := r.(runtimeError); ok {
				outcome, detail = "harness-panic", re.Error()+" @ "+lastPanicSite
			} else {
				outcome, detail = "engine-error", fmt.Sprintf("%v\n%s", r, debug.Stack())
			}
		}
		if outcome == "ok" && G.pos < len(G.prefix) {
			outcome, detail = "engine-error", fmt.Sprintf("path ended after %d of %d prefix decisions", G.pos, len(G.prefix))
		}
		G.finishObs()
		res = G.result(outcome, detail)
		res.Races = raceReports()
		res.Sched = S.log
		res.QSat = smt.GStats.Sat - g0.Sat
		res.QUnsat = smt.GStats.Unsat - g0.Unsat
		res.QUnknown = smt.GStats.Unknown - g0.Unknown
		res.QFallback = smt.GStats.Fallback - g0.Fallback
		res.QCross = smt.GStats.CrossChecked - g0.CrossChecked
		res.SolverNs = smt.GStats.SolverNs - g0.SolverNs
	}()
	// run package initialisers of the harness package (transitively initialises interpreted deps)
	callSSA(I, nil, token.NoPos, pkg.Func("init"), nil, nil)
	mainFr := &frame{i: I, g: S.threads[0]}
	_ = mainFr
	callSSA(I, nil, token.NoPos, fn, nil, nil)
	return nil
}

// WorkerMain serves requests on stdin/stdout until EOF.
func WorkerMain(cfg LoadConfig, in io.Reader, out io.Writer) error {
	debug.SetGCPercent(-1)
	debug.SetMemoryLimit(int64(envMB("SYMGO_MEM_MB", 1500)) << 20)
	p, err := Load(cfg)
	if err != nil {
		return err
	}
	proc, err := smt.StartSolver(cfg.Solver, 20000)
	if err != nil {
		return err
	}
	defer proc.Close()
	rd := bufio.NewReaderSize(in, 1<<20)
	w := bufio.NewWriter(out)
	fmt.Fprintln(w, `{"ready":true}`)
	w.Flush()
	n := 0
	for {
		line, err := rd.ReadBytes('\n')
		if len(line) > 0 {
			var req Request
			if e := json.Unmarshal(line, &req); e != nil {
				return fmt.Errorf("bad request: %v", e)
			}
			res := p.RunPath(&req, proc)
			b, e := json.Marshal(Response{ID: req.ID, Result: res})
			if e != nil {
				return e
			}
			w.Write(b)
			w.WriteByte('\n')
			w.Flush()
			n++
			_ = runtime.NumCPU
		}
		if err != nil {
			if err == io.EOF {
				return nil
			}
			return err
		}
	}
}

// SortedFuncs renders the per-function call counts.
func SortedFuncs(m map[string]int64) []string {
	var ks []string
	for k := range m {
		ks = append(ks, k)
	}
	sort.Strings(ks)
	return ks
}

func envMB(name string, def int) int {
	if v := os.Getenv(name); v != "" {
		var n int
		if _, err := fmt.Sscan(v, &n); err == nil && n > 0 {
			return n
		}
	}
	return def
}
