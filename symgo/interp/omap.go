package interp

// Insertion-ordered map used for every Go map of the target program, so that
// re-execution is deterministic (Go's own iteration order is random).

import (
	"fmt"
	"go/types"
)

type oent struct {
	key  value
	val  value
	live bool
}

type omap struct {
	keyType types.Type
	builtin bool
	ents    []oent
	idx     map[interface{}][]int
	n       int
}

func makeMap(kt types.Type, reserve int64) value {
	return &omap{keyType: kt, builtin: usesBuiltinMap(kt), idx: map[interface{}][]int{}}
}

func (m *omap) bucket(k value) interface{} {
	checkConcreteKey(k)
	if m.builtin {
		return k
	}
	return hash(m.keyType, m.keyType, k)
}

func checkConcreteKey(k value) {
	switch k := k.(type) {
	case sym:
		unsupported("symbolic map key")
	case array:
		for _, e := range k {
			checkConcreteKey(e)
		}
	case structure:
		for _, e := range k {
			checkConcreteKey(e)
		}
	case iface:
		if k.t != nil {
			checkConcreteKey(k.v)
		}
	case symStr:
		unsupported("symbolic string map key")
	}
}

func (m *omap) find(k value) int {
	if m == nil {
		return -1
	}
	b := m.bucket(k)
	for _, i := range m.idx[b] {
		if m.ents[i].live && equals(m.keyType, m.ents[i].key, k) {
			return i
		}
	}
	return -1
}

func (m *omap) lookup(k value) (value, bool) {
	i := m.find(k)
	if i < 0 {
		return nil, false
	}
	return m.ents[i].val, true
}

func (m *omap) insert(k, v value) {
	if m == nil {
		panic("assignment to entry in nil map")
	}
	if i := m.find(k); i >= 0 {
		m.ents[i].val = v
		return
	}
	b := m.bucket(k)
	m.ents = append(m.ents, oent{k, v, true})
	m.idx[b] = append(m.idx[b], len(m.ents)-1)
	m.n++
}

func (m *omap) delete(k value) {
	i := m.find(k)
	if i < 0 {
		return
	}
	m.ents[i].live = false
	m.ents[i].val = nil
	m.n--
	b := m.bucket(k)
	l := m.idx[b]
	for j, x := range l {
		if x == i {
			l = append(l[:j:j], l[j+1:]...)
			break
		}
	}
	if len(l) == 0 {
		delete(m.idx, b)
	} else {
		m.idx[b] = l
	}
	if len(m.ents) > 32 && len(m.ents) > 4*m.n {
		m.compact()
	}
}

func (m *omap) compact() {
	var ne []oent
	m.idx = map[interface{}][]int{}
	for _, e := range m.ents {
		if e.live {
			ne = append(ne, e)
			b := m.bucket(e.key)
			m.idx[b] = append(m.idx[b], len(ne)-1)
		}
	}
	m.ents = ne
}

func (m *omap) len() int {
	if m == nil {
		return 0
	}
	return m.n
}

// keys returns the live keys in insertion order.
func (m *omap) keys() []value {
	if m == nil {
		return nil
	}
	ks := make([]value, 0, m.n)
	for _, e := range m.ents {
		if e.live {
			ks = append(ks, e.key)
		}
	}
	return ks
}

type omapIter struct {
	m    *omap
	keys []value
	i    int
}

func (it *omapIter) next() tuple {
	for it.i < len(it.keys) {
		k := it.keys[it.i]
		it.i++
		if v, ok := it.m.lookup(k); ok {
			return tuple{true, k, v}
		}
	}
	return tuple{false, nil, nil}
}

func (m *omap) String() string { return fmt.Sprintf("omap(%d)", m.len()) }
