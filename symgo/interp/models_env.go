package interp

// Environment models: logging (zap), fmt, time, bytealg, encoding/binary reflection paths,
// strings.Builder, errors.Is/As (DESIGN §3.5).

import (
	"fmt"
	"go/token"
	"go/types"
	"math"
	"strings"

	"golang.org/x/tools/go/ssa"

	"symgo/smt"
)

// stubPkgs: every call into these packages returns the zero value of its result type
// (arguments have already been evaluated by the caller).
var stubPkgs = map[string]bool{
	"go.uber.org/zap":                  true,
	"go.uber.org/zap/zapcore":          true,
	"go.uber.org/zap/zaptest/observer": true,
	"log":                              true,
}

func zeroResults(fn *ssa.Function) value {
	res := fn.Signature.Results()
	switch res.Len() {
	case 0:
		return nil
	case 1:
		return zero(res.At(0).Type())
	}
	t := make(tuple, res.Len())
	for i := range t {
		t[i] = zero(res.At(i).Type())
	}
	return t
}

func newError(fr *frame, msg string) value {
	f := I.prog.ImportedPackage("errors").Func("New")
	return call(I, fr, token.NoPos, f, []value{msg})
}

func fmtPlaceholder(a []value) string {
	if len(a) > 0 {
		if s, ok := a[0].(string); ok {
			return "fmt(" + s + ")"
		}
	}
	return "fmt(...)"
}

func pkgFunc(pkg, name string) *ssa.Function {
	p := I.prog.ImportedPackage(pkg)
	if p == nil {
		panic(pathEnd{"engine-error", "package not loaded: " + pkg})
	}
	f := p.Func(name)
	if f == nil {
		panic(pathEnd{"engine-error", "no function " + pkg + "." + name})
	}
	return f
}

// wrapped errors created by the fmt.Errorf model: msg -> wrapped error (for errors.Is/Unwrap)
var wrappedErrs map[*value]iface

func envReset() { wrappedErrs = map[*value]iface{} }

func init() {
	// ---- fmt: formatted text is never inspected by the code under test
	reg("fmt.Sprintf", func(fr *frame, a []value) value { return fmtPlaceholder(a) })
	reg("fmt.Sprint", func(fr *frame, a []value) value { return "fmt.Sprint(...)" })
	reg("fmt.Sprintln", func(fr *frame, a []value) value { return "fmt.Sprintln(...)" })
	reg("fmt.Errorf", func(fr *frame, a []value) value {
		e := newError(fr, fmtPlaceholder(a)).(iface)
		// remember a %w operand so that errors.Is/Unwrap see through the wrapper
		if f, ok := a[0].(string); ok && strings.Contains(f, "%w") {
			for _, arg := range a[1].([]value) {
				if it, ok := arg.(iface); ok && it.t != nil && types.Implements(it.t, errorIface()) {
					if p, ok := e.v.(*value); ok {
						wrappedErrs[p] = it
					}
				}
			}
		}
		return e
	})
	for _, n := range []string{"fmt.Fprintf", "fmt.Fprint", "fmt.Fprintln", "fmt.Printf", "fmt.Println", "fmt.Print"} {
		reg(n, func(fr *frame, a []value) value { return tuple{int(0), iface{}} })
	}

	// ---- errors
	reg("errors.Is", func(fr *frame, a []value) value {
		err, target := a[0].(iface), a[1].(iface)
		for i := 0; i < 16 && err.t != nil; i++ {
			if sameType(err.t, target.t) && target.t != nil {
				if eq, ok := equalsV(err.t, err.v, target.v).(bool); ok && eq {
					return true
				}
			}
			next, ok := unwrapErr(fr, err)
			if !ok {
				return false
			}
			err = next
		}
		return target.t == nil && err.t == nil
	})
	reg("errors.Unwrap", func(fr *frame, a []value) value {
		n, _ := unwrapErr(fr, a[0].(iface))
		return n
	})

	// ---- time
	reg("time.Now", func(fr *frame, a []value) value { return zeroResults(fr.fn) })
	reg("time.Since", func(fr *frame, a []value) value { return int64(0) })
	reg("time.Until", func(fr *frame, a []value) value { return int64(0) })
	reg("time.Sleep", func(fr *frame, a []value) value { S.yield("sleep"); return nil })
	reg("(time.Time).Sub", func(fr *frame, a []value) value { return int64(0) })
	reg("(time.Time).UnixNano", func(fr *frame, a []value) value { return int64(0) })
	reg("(time.Time).Unix", func(fr *frame, a []value) value { return int64(0) })

	// ---- internal/bytealg (assembly in the real build)
	reg("internal/bytealg.IndexByte", func(fr *frame, a []value) value { return indexByte(a[0].([]value), a[1]) })
	reg("internal/bytealg.IndexByteString", func(fr *frame, a []value) value { return indexByte(toByteValues(a[0]), a[1]) })
	reg("bytes.IndexByte", func(fr *frame, a []value) value { return indexByte(a[0].([]value), a[1]) })
	reg("strings.IndexByte", func(fr *frame, a []value) value { return indexByte(toByteValues(a[0]), a[1]) })
	reg("internal/bytealg.Equal", func(fr *frame, a []value) value {
		x, y := a[0].([]value), a[1].([]value)
		if len(x) != len(y) {
			return false
		}
		return bytesEqTerm(x, y)
	})
	reg("bytes.Equal", func(fr *frame, a []value) value {
		x, y := a[0].([]value), a[1].([]value)
		if len(x) != len(y) {
			return false
		}
		return bytesEqTerm(x, y)
	})
	reg("internal/bytealg.Compare", func(fr *frame, a []value) value { return compareBytes(a[0].([]value), a[1].([]value)) })
	reg("bytes.Compare", func(fr *frame, a []value) value { return compareBytes(a[0].([]value), a[1].([]value)) })
	reg("internal/bytealg.MakeNoZero", func(fr *frame, a []value) value {
		n := int(asInt64(a[0]))
		s := make([]value, n)
		for i := range s {
			s[i] = uint8(0)
		}
		return s
	})
	reg("internal/bytealg.Count", func(fr *frame, a []value) value { return countByte(a[0].([]value), a[1]) })
	reg("internal/bytealg.CountString", func(fr *frame, a []value) value { return countByte(toByteValues(a[0]), a[1]) })
	reg("internal/stringslite.Index", func(fr *frame, a []value) value {
		return strings.Index(str(a[0]), str(a[1]))
	})
	reg("strings.Index", func(fr *frame, a []value) value { return strings.Index(str(a[0]), str(a[1])) })
	reg("strings.Contains", func(fr *frame, a []value) value { return strings.Contains(str(a[0]), str(a[1])) })
	reg("strings.ToUpper", func(fr *frame, a []value) value { return strings.ToUpper(str(a[0])) })
	reg("strings.ToLower", func(fr *frame, a []value) value { return strings.ToLower(str(a[0])) })

	// ---- strings.Builder (uses unsafe.String)
	reg("(*strings.Builder).String", func(fr *frame, a []value) value {
		st := (*(a[0].(*value))).(structure)
		buf := st[1].([]value)
		ss := make(symStr, len(buf))
		copy(ss, buf)
		return normStr(ss)
	})
	reg("(*strings.Builder).copyCheck", func(fr *frame, a []value) value { return nil })

	// ---- encoding/binary: the reflection path used for named integer types
	reg("encoding/binary.Write", modelBinaryWrite)
	reg("encoding/binary.Read", modelBinaryRead)

	// ---- math helpers that use unsafe
	reg("math.Float64bits", func(fr *frame, a []value) value {
		if _, ok := a[0].(sym); ok {
			unsupported("math.Float64bits of a symbolic float")
		}
		return float64bits(a[0].(float64))
	})
	reg("math.Float64frombits", func(fr *frame, a []value) value {
		if sx, ok := a[0].(sym); ok {
			return sym{G.ctx.App(smt.OBitsToFP, smt.FP, sx.t), types.Float64}
		}
		return float64frombits(a[0].(uint64))
	})
	reg("math.IsNaN", func(fr *frame, a []value) value {
		if sx, ok := a[0].(sym); ok {
			return symBool(G.ctx.App(smt.OFIsNaN, smt.Bool, sx.t))
		}
		f := a[0].(float64)
		return f != f
	})
	reg("math.IsInf", func(fr *frame, a []value) value {
		sign := int(asInt64(a[1]))
		if sx, ok := a[0].(sym); ok {
			c := G.ctx
			inf := c.App(smt.OFIsInf, smt.Bool, sx.t)
			switch {
			case sign > 0:
				return symBool(c.And(inf, c.App(smt.OFLt, smt.Bool, c.FPConst(0), sx.t)))
			case sign < 0:
				return symBool(c.And(inf, c.App(smt.OFLt, smt.Bool, sx.t, c.FPConst(0))))
			}
			return symBool(inf)
		}
		f := a[0].(float64)
		return sign >= 0 && f > maxF || sign <= 0 && f < -maxF
	})
}

func float64bits(f float64) uint64     { return math.Float64bits(f) }
func float64frombits(u uint64) float64 { return math.Float64frombits(u) }

const maxF = 1.79769313486231570814527423731704356798070e+308

func errorIface() *types.Interface {
	return types.Universe.Lookup("error").Type().Underlying().(*types.Interface)
}

func unwrapErr(fr *frame, err iface) (iface, bool) {
	if p, ok := err.v.(*value); ok {
		if w, ok := wrappedErrs[p]; ok {
			return w, true
		}
	}
	if fn := methodOf(err.t, "Unwrap"); fn != nil && fn.Signature.Results().Len() == 1 {
		if _, isIface := fn.Signature.Results().At(0).Type().Underlying().(*types.Interface); isIface {
			r := call(I, fr, token.NoPos, fn, []value{err.v})
			if it, ok := r.(iface); ok && it.t != nil {
				return it, true
			}
		}
	}
	return iface{}, false
}

func indexByte(s []value, c value) value {
	for i, b := range s {
		if !isSym(b) && !isSym(c) {
			if b.(uint8) == c.(uint8) {
				return i
			}
			continue
		}
		if truth(symBool(G.ctx.Eq(termOf(b), termOf(c))), fmt.Sprintf("IndexByte[%d]", i)) {
			return i
		}
	}
	return -1
}

func countByte(s []value, c value) value {
	n := 0
	for i, b := range s {
		if !isSym(b) && !isSym(c) {
			if b.(uint8) == c.(uint8) {
				n++
			}
			continue
		}
		if truth(symBool(G.ctx.Eq(termOf(b), termOf(c))), fmt.Sprintf("Count[%d]", i)) {
			n++
		}
	}
	return n
}

func compareBytes(x, y []value) value {
	n := len(x)
	if len(y) < n {
		n = len(y)
	}
	c := G.ctx
	for i := 0; i < n; i++ {
		a, b := x[i], y[i]
		if !isSym(a) && !isSym(b) {
			if a.(uint8) < b.(uint8) {
				return -1
			}
			if a.(uint8) > b.(uint8) {
				return 1
			}
			continue
		}
		if truth(symBool(c.Eq(termOf(a), termOf(b))), fmt.Sprintf("Compare[%d]eq", i)) {
			continue
		}
		if truth(symBool(c.App(smt.OULt, smt.Bool, termOf(a), termOf(b))), fmt.Sprintf("Compare[%d]lt", i)) {
			return -1
		}
		return 1
	}
	switch {
	case len(x) < len(y):
		return -1
	case len(x) > len(y):
		return 1
	}
	return 0
}

// intBytes renders an integer scalar as n bytes in the given byte order.
func intBytes(v value, little bool) []value {
	k, ok := kindOf(v)
	if !ok || !(isIntKind(k)) {
		if b, isb := v.(bool); isb {
			if b {
				return []value{uint8(1)}
			}
			return []value{uint8(0)}
		}
		unsupported(fmt.Sprintf("binary.Write of %T", v))
	}
	w, _ := kindWidth(k)
	t := termOf(v)
	n := w / 8
	out := make([]value, n)
	for i := 0; i < n; i++ {
		b := mkSym(G.ctx.Extract(t, 8*i+7, 8*i), types.Uint8)
		if little {
			out[i] = b
		} else {
			out[n-1-i] = b
		}
	}
	return out
}

func isLittle(order value) bool {
	it := order.(iface)
	return strings.Contains(it.t.String(), "little") || strings.Contains(it.t.String(), "Little")
}

func modelBinaryWrite(fr *frame, a []value) value {
	w := a[0].(iface)
	little := isLittle(a[1])
	data := a[2].(iface)
	var bs []value
	var emit func(t types.Type, v value)
	emit = func(t types.Type, v value) {
		switch tt := t.Underlying().(type) {
		case *types.Basic:
			bs = append(bs, intBytes(v, little)...)
		case *types.Pointer:
			emit(tt.Elem(), load(tt.Elem(), v.(*value)))
		case *types.Slice:
			for _, e := range v.([]value) {
				emit(tt.Elem(), e)
			}
		case *types.Array:
			for _, e := range v.(array) {
				emit(tt.Elem(), e)
			}
		default:
			unsupported("binary.Write of " + t.String())
		}
	}
	emit(data.t, data.v)
	r := callMethod(fr, w, "Write", bs).(tuple)
	return r[1]
}

func modelBinaryRead(fr *frame, a []value) value {
	r := a[0]
	little := isLittle(a[1])
	data := a[2].(iface)
	pt, ok := data.t.Underlying().(*types.Pointer)
	if !ok {
		unsupported("binary.Read into " + data.t.String())
	}
	b, ok := pt.Elem().Underlying().(*types.Basic)
	if !ok || b.Info()&types.IsInteger == 0 {
		unsupported("binary.Read into " + data.t.String())
	}
	w, _ := kindWidth(b.Kind())
	n := w / 8
	buf := make([]value, n)
	for i := range buf {
		buf[i] = uint8(0)
	}
	res := call(I, fr, token.NoPos, pkgFunc("io", "ReadFull"), []value{r, buf}).(tuple)
	if err := res[1].(iface); err.t != nil {
		return err
	}
	c := G.ctx
	var t *smt.Term
	for i := 0; i < n; i++ {
		var byteV value
		if little {
			byteV = buf[n-1-i]
		} else {
			byteV = buf[i]
		}
		bt := termOf(byteV)
		if t == nil {
			t = bt
		} else {
			t = c.Concat(t, bt)
		}
	}
	*(data.v.(*value)) = mkSym(t, b.Kind())
	return iface{}
}

func init() {
	// msgp's unsafe string/bytes casts
	reg("github.com/tinylib/msgp/msgp.UnsafeString", func(fr *frame, a []value) value {
		b := a[0].([]value)
		ss := make(symStr, len(b))
		copy(ss, b)
		return normStr(ss)
	})
	reg("github.com/tinylib/msgp/msgp.UnsafeBytes", func(fr *frame, a []value) value {
		return append([]value{}, toByteValues(a[0])...)
	})
}
