package interp

// Abstract model of github.com/shopspring/decimal for core/currency (DESIGN §3.5):
// a Decimal is (coeff, exp) with coeff a signed 64-bit term (|coeff| < 10^17 for
// values coming from NewFromFloat) and exp a concrete int32. Digit generation of
// NewFromFloat is NOT modelled: its result is an arbitrary well-formed decimal
// with the sign of the argument (exp enumerated over a stated range).

import (
	"go/types"
	"math"
	"math/big"

	"symgo/smt"
)

const decPkg = "github.com/shopspring/decimal."

type decval struct {
	c *smt.Term // BV64, signed coefficient
}

func mkDecimal(c *smt.Term, exp int32) value {
	return structure{&decval{c}, exp}
}

func decParts(v value) (*smt.Term, int32) {
	s := v.(structure)
	d, ok := s[0].(*decval)
	if !ok || d == nil {
		return G.ctx.Const(smt.BV(64), 0), s[1].(int32)
	}
	return d.c, s[1].(int32)
}

const decW = 320

func pow10Term(n int) *smt.Term {
	p := new(big.Int).Exp(big.NewInt(10), big.NewInt(int64(n)), nil)
	return G.ctx.ConstBig(smt.BV(decW), p)
}

// decScaled returns coeff*10^(exp-e) as a signed decW-bit term (exp >= e, exp-e <= 75).
func decScaled(c *smt.Term, exp, e int32) *smt.Term {
	x := G.ctx.SExt(c, decW)
	d := int(exp - e)
	if d == 0 {
		return x
	}
	if d > 75 {
		unsupported("decimal exponent difference beyond the modelled range")
	}
	return G.ctx.App(smt.OMul, smt.BV(decW), x, pow10Term(d))
}

type lastDec struct {
	c *smt.Term
	e int32
}

var lastDecimal *lastDec

func init() {
	reg(vpPkg+"LastDecimal", func(fr *frame, a []value) value {
		if lastDecimal == nil {
			return tuple{int64(0), int(0), false}
		}
		return tuple{mkSym(lastDecimal.c, types.Int64), int(lastDecimal.e), true}
	})
	reg(vpPkg+"MulPow10", func(fr *frame, a []value) value {
		c := G.ctx
		e := int(asInt64(a[1]))
		if e < 0 || e > 60 {
			unsupported("MulPow10 exponent out of modelled range")
		}
		x := c.ZExt(termOf(a[0]), decW)
		p := c.App(smt.OMul, smt.BV(decW), x, pow10Term(e))
		fits := c.Eq(c.Extract(p, decW-1, 128), c.ConstBig(smt.BV(decW-128), new(big.Int)))
		return tuple{mkSym(c.Extract(p, 127, 64), types.Uint64), mkSym(c.Extract(p, 63, 0), types.Uint64), symBool(fits)}
	})
	reg(decPkg+"NewFromInt", func(fr *frame, a []value) value {
		return mkDecimal(termOf(a[0]), 0)
	})
	reg(decPkg+"New", func(fr *frame, a []value) value {
		return mkDecimal(termOf(a[0]), a[1].(int32))
	})
	reg(decPkg+"NewFromFloat", func(fr *frame, a []value) value {
		c := G.ctx
		f := termOf(a[0])
		bad := c.Or(c.App(smt.OFIsNaN, smt.Bool, f), c.App(smt.OFIsInf, smt.Bool, f))
		if truth(symBool(bad), "decimal.NewFromFloat/naninf") {
			panic(targetPanic{iface{types.Typ[types.String], "Cannot create a Decimal from NaN/Inf"}})
		}
		zero := c.App(smt.OFEq, smt.Bool, f, c.FPConst(0))
		if truth(symBool(zero), "decimal.NewFromFloat/zero") {
			return mkDecimal(c.Const(smt.BV(64), 0), 0)
		}
		co := G.newInput("decimal.coeff", smt.BV(64))
		lim := c.Const(smt.BV(64), 1000000000000000) // 10^15 (stated bound: at most 15 significant digits)
		neg := c.App(smt.OFLt, smt.Bool, f, c.FPConst(0))
		// sign(coeff) = sign(f), 0 < |coeff| < 10^17
		G.assume(c.Ite(neg,
			c.And(c.App(smt.OSLt, smt.Bool, co, c.Const(smt.BV(64), 0)), c.App(smt.OSLt, smt.Bool, c.App(smt.ONeg, smt.BV(64), lim), co)),
			c.And(c.App(smt.OSLt, smt.Bool, c.Const(smt.BV(64), 0), co), c.App(smt.OSLt, smt.Bool, co, lim))))
		// shortest round-trip digits carry no trailing zero
		G.assume(c.Not(c.Eq(c.App(smt.OSRem, smt.BV(64), co, c.Const(smt.BV(64), 10)), c.Const(smt.BV(64), 0))))
		lo := int64(-30)
		hi := int64(30)
		if v, ok := G.params["dec_exp_lo"]; ok {
			lo = v
		}
		if v, ok := G.params["dec_exp_hi"]; ok {
			hi = v
		}
		var alts []int64
		for e := lo; e <= hi; e++ {
			alts = append(alts, e)
		}
		e := chooseAmong(alts, "decimal.exp")
		lastDecimal = &lastDec{co, int32(e)}
		return mkDecimal(co, int32(e))
	})
	reg("("+decPkg+"Decimal).Sign", func(fr *frame, a []value) value {
		c := G.ctx
		co, _ := decParts(a[0])
		z := c.Const(smt.BV(64), 0)
		r := c.Ite(c.Eq(co, z), z, c.Ite(c.App(smt.OSLt, smt.Bool, co, z), c.Const(smt.BV(64), ^uint64(0)), c.Const(smt.BV(64), 1)))
		return mkSym(r, types.Int)
	})
	reg("("+decPkg+"Decimal).Exponent", func(fr *frame, a []value) value {
		_, e := decParts(a[0])
		return e
	})
	reg("("+decPkg+"Decimal).Shift", func(fr *frame, a []value) value {
		co, e := decParts(a[0])
		return mkDecimal(co, e+a[1].(int32))
	})
	cmp := func(a []value) (*smt.Term, *smt.Term) {
		c1, e1 := decParts(a[0])
		c2, e2 := decParts(a[1])
		e := e1
		if e2 < e {
			e = e2
		}
		return decScaled(c1, e1, e), decScaled(c2, e2, e)
	}
	reg("("+decPkg+"Decimal).GreaterThan", func(fr *frame, a []value) value {
		x, y := cmp(a)
		return symBool(G.ctx.App(smt.OSLt, smt.Bool, y, x))
	})
	reg("("+decPkg+"Decimal).LessThan", func(fr *frame, a []value) value {
		x, y := cmp(a)
		return symBool(G.ctx.App(smt.OSLt, smt.Bool, x, y))
	})
	reg("("+decPkg+"Decimal).IntPart", func(fr *frame, a []value) value {
		c := G.ctx
		co, e := decParts(a[0])
		if e >= 0 {
			if e > 75 {
				unsupported("decimal IntPart exponent beyond the modelled range")
			}
			// big.Int.Int64 of a value that does not fit is undefined: low 64 bits
			return mkSym(c.Extract(decScaled(co, e, 0), 63, 0), types.Int64)
		}
		if -e > 18 {
			// |coeff| < 2^63 < 10^19
			if -e > 19 {
				return int64(0)
			}
		}
		p := new(big.Int).Exp(big.NewInt(10), big.NewInt(int64(-e)), nil)
		x := c.SExt(co, 128)
		q := c.App(smt.OSDiv, smt.BV(128), x, c.ConstBig(smt.BV(128), p))
		return mkSym(c.Extract(q, 63, 0), types.Int64)
	})
	reg("("+decPkg+"Decimal).Float64", func(fr *frame, a []value) value {
		co, e := decParts(a[0])
		if co.IsConst() {
			// exact for concrete arguments via big.Float is not bit-identical to the
			// library's strconv path in general; only trivial cases are modelled
			if co.Val == 0 {
				return tuple{float64(0), true}
			}
			_ = e
		}
		unsupported("decimal.Float64 (decimal->float digit conversion is outside the model)")
		return nil
	})
	_ = math.MaxInt64
}
