// Copyright 2013 The Go Authors. All rights reserved.
// Use of this source code is governed by a BSD-style
// license that can be found in the LICENSE file.

// Package interp is a fork of golang.org/x/tools/go/ssa/interp (v0.29.0) turned
// into a symbolic executor: scalars may be SMT terms (see sym.go), branches on
// symbolic conditions are decisions resolved by an SMT solver (path.go), paths
// are explored by stateless re-execution (explore.go), goroutines run under a
// deterministic scheduler (sched.go) and the environment is modelled (models*.go).
package interp

import (
	"fmt"
	"go/token"
	"go/types"
	"os"
	"runtime"
	"slices"
	"strings"
	"unsafe"

	"golang.org/x/tools/go/ssa"

	"symgo/smt"
)

type continuation int

const (
	kNext continuation = iota
	kReturn
	kJump
)

// State shared between all interpreted goroutines of one path.
type interpreter struct {
	prog               *ssa.Program
	globals            map[*ssa.Global]*value
	runtimeErrorString types.Type
	sizes              types.Sizes
	interpPkgs         map[string]bool // package paths whose code is interpreted and whose init runs
	inited             map[*ssa.Package]bool
	tracing            bool
	errorType          types.Type
}

// I is the interpreter of the path being executed.
var I *interpreter

type deferred struct {
	fn    value
	args  []value
	instr *ssa.Defer
	tail  *deferred
}

func vkey(v ssa.Value) uintptr {
	return (*[2]uintptr)(unsafe.Pointer(&v))[1]
}

var constCache = map[uintptr]value{}

type fnInfo struct {
	idx  map[uintptr]int
	n    int
	name string
	pkg  string
	// call dispatch, computed once per function
	model    modelFn
	stub     bool
	isInit   bool
	interpOK bool
	pkgPath  string
}

var fnInfos = map[*ssa.Function]*fnInfo{}

func infoOf(fn *ssa.Function) *fnInfo {
	if fi, ok := fnInfos[fn]; ok {
		return fi
	}
	fi := &fnInfo{idx: map[uintptr]int{}, name: fn.String()}
	if fn.Parent() == nil {
		fi.model = models[fi.name]
		if fi.model == nil && fn.Synthetic != "" && fn.Origin() != nil {
			fi.model = models[fn.Origin().String()]
		}
	}
	fi.pkgPath = pkgPathOf(fn)
	fi.stub = stubPkgs[fi.pkgPath]
	fi.isInit = fn.Name() == "init" && fn.Pkg != nil && fn.Parent() == nil && fn.Signature.Recv() == nil && fn.Synthetic != ""
	fi.interpOK = true
	if fn.Synthetic == "" || fn.Pkg != nil {
		if fi.pkgPath != "" && !I.interpPkgs[fi.pkgPath] {
			fi.interpOK = false
		}
	}
	if fn.Pkg != nil {
		fi.pkg = fn.Pkg.Pkg.Path()
	} else if o := fn.Origin(); o != nil && o.Pkg != nil {
		fi.pkg = o.Pkg.Pkg.Path()
	}
	add := func(v ssa.Value) {
		fi.idx[vkey(v)] = fi.n
		fi.n++
	}
	for _, p := range fn.Params {
		add(p)
	}
	for _, fv := range fn.FreeVars {
		add(fv)
	}
	for _, l := range fn.Locals {
		add(l)
	}
	for _, b := range fn.Blocks {
		for _, ins := range b.Instrs {
			if v, ok := ins.(ssa.Value); ok {
				if _, dup := fi.idx[vkey(v)]; !dup {
					add(v)
				}
			}
		}
	}
	fnInfos[fn] = fi
	return fi
}

type frame struct {
	i                *interpreter
	caller           *frame
	fn               *ssa.Function
	info             *fnInfo
	block, prevBlock *ssa.BasicBlock
	env              []value
	locals           []value
	defers           *deferred
	result           value
	panicking        bool
	panic            interface{}
	phitemps         []value
	g                *gthread
	cur              ssa.Instruction
}

var unwinding bool

// noInitPkgs are interpreted but their package initialisers are skipped (they only
// set up reflection-based globals that no modelled path reads).
var noInitPkgs = map[string]bool{"errors": true, "internal/errors": true, "time": true, "github.com/0chain/common/core/logging": true, "go.uber.org/atomic": true}

func (fr *frame) set(k ssa.Value, v value) { fr.env[fr.info.idx[vkey(k)]] = v }

func (fr *frame) get(key ssa.Value) value {
	switch key := key.(type) {
	case nil:
		return nil
	case *ssa.Function, *ssa.Builtin:
		return key
	case *ssa.Const:
		k := vkey(key)
		if v, ok := constCache[k]; ok {
			return v
		}
		v := constValue(key)
		switch v.(type) {
		case bool, int, int8, int16, int32, int64, uint, uint8, uint16, uint32, uint64, uintptr, float32, float64, string:
			constCache[k] = v
		}
		return v
	case *ssa.Global:
		if r, ok := fr.i.globals[key]; ok {
			return r
		}
		cell := zero(mustDeref(key.Type()))
		fr.i.globals[key] = &cell
		return &cell
	}
	if ix, ok := fr.info.idx[vkey(key)]; ok {
		return fr.env[ix]
	}
	panic(fmt.Sprintf("get: no value for %T: %v", key, key.Name()))
}

func mustDeref(t types.Type) types.Type {
	if p, ok := t.Underlying().(*types.Pointer); ok {
		return p.Elem()
	}
	panic(fmt.Sprintf("mustDeref: %v is not a pointer", t))
}

// isPathEnd reports whether a recovered panic payload must pass through untouched.
func isPathEnd(p interface{}) bool {
	switch p.(type) {
	case pathEnd, killed, goroutinePanic:
		return true
	}
	return false
}

// runDefer runs a deferred call d.
func (fr *frame) runDefer(d *deferred) {
	var ok bool
	defer func() {
		if !ok {
			p := recover()
			if isPathEnd(p) {
				panic(p)
			}
			fr.panicking = true
			fr.panic = p
		}
	}()
	call(fr.i, fr, d.instr.Pos(), d.fn, d.args)
	ok = true
}

func (fr *frame) runDefers() {
	for d := fr.defers; d != nil; d = d.tail {
		fr.runDefer(d)
	}
	fr.defers = nil
	if fr.panicking {
		panic(fr.panic)
	}
}

func lookupMethod(i *interpreter, typ types.Type, meth *types.Func) *ssa.Function {
	return i.prog.LookupMethod(typ, meth.Pkg(), meth.Name())
}

func siteOf(fr *frame, instr ssa.Instruction) string {
	p := fr.i.prog.Fset.Position(instr.Pos())
	if p.IsValid() {
		f := p.Filename
		if i := strings.LastIndexByte(f, '/'); i >= 0 {
			f = f[i+1:]
		}
		return fmt.Sprintf("%s:%d:%d", f, p.Line, p.Column)
	}
	return fr.fn.String() + "#" + fr.block.String()
}

// inRangeTerm is 0 <= idx < n for a symbolic index of the given kind.
func inRangeTerm(sx sym, n int) value {
	w, signed := kindWidth(sx.k)
	c := G.ctx
	if signed {
		if w < 64 && uint64(n) >= uint64(1)<<uint(w-1) {
			return symBool(c.App(smtSLe, smtBool, c.Const(smtBV(w), 0), sx.t))
		}
		return symBool(c.And(c.App(smtSLe, smtBool, c.Const(smtBV(w), 0), sx.t), c.App(smtSLt, smtBool, sx.t, c.Const(smtBV(w), uint64(n)))))
	}
	if w < 64 && uint64(n) >= uint64(1)<<uint(w) {
		return true
	}
	return symBool(c.App(smtULt, smtBool, sx.t, c.Const(smtBV(w), uint64(n))))
}

func indexCheck(idx value, n int, fr *frame, instr ssa.Instruction) int {
	if sx, ok := idx.(sym); ok {
		in := inRangeTerm(sx, n)
		site := siteOf(fr, instr)
		if !truth(in, site+"/range") {
			panic(runtimeError(fmt.Sprintf("index out of range (symbolic index) with length %d", n)))
		}
		return int(asInt64(concretize(sx, site+"/idx")))
	}
	i := asInt64(idx)
	if i < 0 || i >= int64(n) {
		panic(runtimeError(fmt.Sprintf("index out of range [%d] with length %d", i, n)))
	}
	return int(i)
}

// symTableIndex returns table[idx] as an ite-chain when idx is symbolic and the table holds concrete scalars.
func symTableIndex(elem func(i int) value, n int, idx sym, fr *frame, instr ssa.Instruction) (value, bool) {
	if n == 0 || n > 256 {
		return nil, false
	}
	k0, ok := kindOf(elem(0))
	if !ok || !(isIntKind(k0) || k0 == types.Bool) {
		return nil, false
	}
	for i := 0; i < n; i++ {
		e := elem(i)
		if isSym(e) {
			return nil, false
		}
		k, ok := kindOf(e)
		if !ok || k != k0 {
			return nil, false
		}
	}
	w, _ := kindWidth(idx.k)
	c := G.ctx
	in := inRangeTerm(idx, n)
	if !truth(in, siteOf(fr, instr)+"/range") {
		panic(runtimeError(fmt.Sprintf("index out of range (symbolic index) with length %d", n)))
	}
	// group indices by entry value: default = most frequent value, one ite per other value
	groups := map[*smt.Term][]int{}
	var order []*smt.Term
	for i := 0; i < n; i++ {
		e := termOf(elem(i))
		if _, ok := groups[e]; !ok {
			order = append(order, e)
		}
		groups[e] = append(groups[e], i)
	}
	def := order[0]
	for _, e := range order {
		if len(groups[e]) > len(groups[def]) {
			def = e
		}
	}
	res := def
	for _, e := range order {
		if e == def {
			continue
		}
		cond := c.False()
		for _, i := range groups[e] {
			cond = c.Or(cond, c.Eq(idx.t, c.Const(smtBV(w), uint64(i))))
		}
		res = c.Ite(cond, e, res)
	}
	return mkSym(res, k0), true
}

// visitInstr interprets a single ssa.Instruction.
func visitInstr(fr *frame, instr ssa.Instruction) continuation {
	switch instr := instr.(type) {
	case *ssa.DebugRef:
		// no-op

	case *ssa.UnOp:
		if instr.Op == token.MUL {
			p := fr.get(instr.X).(*value)
			if p == nil {
				panic(runtimeError("invalid memory address or nil pointer dereference"))
			}
			raceRead(p, fr, instr)
			fr.set(instr, load(mustDeref(instr.X.Type()), p))
		} else {
			fr.set(instr, unop(instr, fr.get(instr.X)))
		}

	case *ssa.BinOp:
		fr.set(instr, binop(instr.Op, instr.X.Type(), fr.get(instr.X), fr.get(instr.Y)))

	case *ssa.Call:
		fn, args := prepareCall(fr, &instr.Call)
		fr.set(instr, call(fr.i, fr, instr.Pos(), fn, args))

	case *ssa.ChangeInterface:
		fr.set(instr, fr.get(instr.X))

	case *ssa.ChangeType:
		fr.set(instr, fr.get(instr.X))

	case *ssa.Convert:
		fr.set(instr, conv(instr.Type(), instr.X.Type(), fr.get(instr.X)))

	case *ssa.SliceToArrayPointer:
		fr.set(instr, sliceToArrayPointer(instr.Type(), instr.X.Type(), fr.get(instr.X)))

	case *ssa.MakeInterface:
		fr.set(instr, iface{t: instr.X.Type(), v: fr.get(instr.X)})

	case *ssa.Extract:
		fr.set(instr, fr.get(instr.Tuple).(tuple)[instr.Index])

	case *ssa.Slice:
		x := fr.get(instr.X)
		if p, ok := x.(*value); ok && p == nil {
			panic(runtimeError("invalid memory address or nil pointer dereference"))
		}
		fr.set(instr, slice(x, fr.get(instr.Low), fr.get(instr.High), fr.get(instr.Max)))

	case *ssa.Return:
		switch len(instr.Results) {
		case 0:
		case 1:
			fr.result = fr.get(instr.Results[0])
		default:
			var res []value
			for _, r := range instr.Results {
				res = append(res, fr.get(r))
			}
			fr.result = tuple(res)
		}
		fr.block = nil
		return kReturn

	case *ssa.RunDefers:
		fr.runDefers()

	case *ssa.Panic:
		panic(targetPanic{fr.get(instr.X)})

	case *ssa.Send:
		chanSend(fr.get(instr.Chan).(*channel), fr.get(instr.X))

	case *ssa.Store:
		p := fr.get(instr.Addr).(*value)
		if p == nil {
			panic(runtimeError("invalid memory address or nil pointer dereference"))
		}
		raceWrite(p, fr, instr)
		store(mustDeref(instr.Addr.Type()), p, fr.get(instr.Val))

	case *ssa.If:
		succ := 1
		c := fr.get(instr.Cond)
		var t bool
		if b, ok := c.(bool); ok {
			t = b
		} else {
			t = truth(c, siteOf(fr, instr))
		}
		if t {
			succ = 0
		}
		fr.prevBlock, fr.block = fr.block, fr.block.Succs[succ]
		return kJump

	case *ssa.Jump:
		fr.prevBlock, fr.block = fr.block, fr.block.Succs[0]
		return kJump

	case *ssa.Defer:
		fn, args := prepareCall(fr, &instr.Call)
		defers := &fr.defers
		if into := fr.get(instr.DeferStack); into != nil {
			defers = into.(**deferred)
		}
		*defers = &deferred{fn: fn, args: args, instr: instr, tail: *defers}

	case *ssa.Go:
		fn, args := prepareCall(fr, &instr.Call)
		spawn(fr, instr, fn, args)

	case *ssa.MakeChan:
		fr.set(instr, newChannel(int(asInt64(fr.get(instr.Size)))))

	case *ssa.Alloc:
		var addr *value
		if instr.Heap {
			addr = new(value)
			fr.set(instr, addr)
		} else {
			addr = fr.get(instr).(*value)
		}
		*addr = zero(mustDeref(instr.Type()))

	case *ssa.MakeSlice:
		n := asInt64(fr.get(instr.Cap))
		l := asInt64(fr.get(instr.Len))
		if l < 0 || n < l || n > 1<<24 {
			panic(runtimeError("makeslice: len out of range"))
		}
		slice := make([]value, n)
		tElt := instr.Type().Underlying().(*types.Slice).Elem()
		for i := range slice {
			slice[i] = zero(tElt)
		}
		fr.set(instr, slice[:l])

	case *ssa.MakeMap:
		fr.set(instr, makeMap(instr.Type().Underlying().(*types.Map).Key(), 0))

	case *ssa.Range:
		fr.set(instr, rangeIter(fr.get(instr.X), instr.X.Type()))

	case *ssa.Next:
		fr.set(instr, fr.get(instr.Iter).(iter).next())

	case *ssa.FieldAddr:
		p := fr.get(instr.X).(*value)
		if p == nil {
			panic(runtimeError("invalid memory address or nil pointer dereference"))
		}
		fr.set(instr, &(*p).(structure)[instr.Field])

	case *ssa.Field:
		fr.set(instr, fr.get(instr.X).(structure)[instr.Field])

	case *ssa.IndexAddr:
		x := fr.get(instr.X)
		idx := fr.get(instr.Index)
		switch x := x.(type) {
		case []value:
			fr.set(instr, &x[indexCheck(idx, len(x), fr, instr)])
		case *value: // *array
			if x == nil {
				panic(runtimeError("invalid memory address or nil pointer dereference"))
			}
			a := (*x).(array)
			fr.set(instr, &a[indexCheck(idx, len(a), fr, instr)])
		default:
			panic(fmt.Sprintf("unexpected x type in IndexAddr: %T", x))
		}

	case *ssa.Index:
		x := fr.get(instr.X)
		idx := fr.get(instr.Index)
		switch x := x.(type) {
		case array:
			if sx, ok := idx.(sym); ok {
				if v, ok := symTableIndex(func(i int) value { return x[i] }, len(x), sx, fr, instr); ok {
					fr.set(instr, v)
					break
				}
			}
			fr.set(instr, x[indexCheck(idx, len(x), fr, instr)])
		case string:
			if sx, ok := idx.(sym); ok {
				if v, ok := symTableIndex(func(i int) value { return x[i] }, len(x), sx, fr, instr); ok {
					fr.set(instr, v)
					break
				}
			}
			fr.set(instr, x[indexCheck(idx, len(x), fr, instr)])
		case symStr:
			fr.set(instr, x[indexCheck(idx, len(x), fr, instr)])
		default:
			panic(fmt.Sprintf("unexpected x type in Index: %T", x))
		}

	case *ssa.Lookup:
		x := fr.get(instr.X)
		idx := fr.get(instr.Index)
		switch xs := x.(type) {
		case string:
			fr.set(instr, xs[indexCheck(idx, len(xs), fr, instr)])
		case symStr:
			fr.set(instr, xs[indexCheck(idx, len(xs), fr, instr)])
		default:
			if m, ok := x.(*omap); ok {
				raceMap(m, false)
			}
			fr.set(instr, lookup(instr, x, idx))
		}

	case *ssa.MapUpdate:
		m := fr.get(instr.Map)
		key := fr.get(instr.Key)
		v := fr.get(instr.Value)
		switch m := m.(type) {
		case *omap:
			if m == nil {
				panic(targetPanicStr("assignment to entry in nil map"))
			}
			raceMap(m, true)
			m.insert(key, v)
		default:
			panic(fmt.Sprintf("illegal map type: %T", m))
		}

	case *ssa.TypeAssert:
		fr.set(instr, typeAssert(fr.i, instr, fr.get(instr.X).(iface)))

	case *ssa.MakeClosure:
		var bindings []value
		for _, binding := range instr.Bindings {
			bindings = append(bindings, fr.get(binding))
		}
		fr.set(instr, &closure{instr.Fn.(*ssa.Function), bindings})

	case *ssa.Phi:
		panic("unreachable: phi")

	case *ssa.Select:
		fr.set(instr, doSelect(fr, instr))

	default:
		panic(fmt.Sprintf("unexpected instruction: %T", instr))
	}
	return kNext
}

func targetPanicStr(s string) runtimeError { return runtimeError(s) }

func prepareCall(fr *frame, call *ssa.CallCommon) (fn value, args []value) {
	v := fr.get(call.Value)
	if call.Method == nil {
		fn = v
	} else {
		recv := v.(iface)
		if recv.t == nil {
			panic(runtimeError("invalid memory address or nil pointer dereference (method on nil interface)"))
		}
		if f := lookupMethod(fr.i, recv.t, call.Method); f == nil {
			panic(fmt.Sprintf("method set for dynamic type %v does not contain %s", recv.t, call.Method))
		} else {
			fn = f
		}
		args = append(args, recv.v)
	}
	for _, arg := range call.Args {
		args = append(args, fr.get(arg))
	}
	return
}

func call(i *interpreter, caller *frame, callpos token.Pos, fn value, args []value) value {
	switch fn := fn.(type) {
	case *ssa.Function:
		if fn == nil {
			panic(runtimeError("invalid memory address or nil pointer dereference (call of nil func)"))
		}
		return callSSA(i, caller, callpos, fn, args, nil)
	case *closure:
		return callSSA(i, caller, callpos, fn.Fn, args, fn.Env)
	case *ssa.Builtin:
		return callBuiltin(caller, callpos, fn, args)
	}
	panic(fmt.Sprintf("cannot call %T", fn))
}

// pkgPathOf returns the package path owning fn (through instantiation/closure parents).
func pkgPathOf(fn *ssa.Function) string {
	for f := fn; f != nil; f = f.Parent() {
		if f.Pkg != nil {
			return f.Pkg.Pkg.Path()
		}
		if o := f.Origin(); o != nil && o.Pkg != nil {
			return o.Pkg.Pkg.Path()
		}
	}
	// wrappers / bound methods: use the receiver's or object's package
	if o := fn.Object(); o != nil && o.Pkg() != nil {
		return o.Pkg().Path()
	}
	if fn.Signature.Recv() != nil {
		t := fn.Signature.Recv().Type()
		if p, ok := t.(*types.Pointer); ok {
			t = p.Elem()
		}
		if n, ok := t.(*types.Named); ok && n.Obj().Pkg() != nil {
			return n.Obj().Pkg().Path()
		}
	}
	return ""
}

func callChain(fr *frame) string {
	var parts []string
	for f := fr; f != nil && len(parts) < 8; f = f.caller {
		parts = append(parts, f.fn.String())
	}
	return strings.Join(parts, " <- ")
}

func callSSA(i *interpreter, caller *frame, callpos token.Pos, fn *ssa.Function, args []value, env []value) value {
	fr := &frame{i: i, caller: caller, fn: fn}
	if caller != nil {
		fr.g = caller.g
	}
	fi := infoOf(fn)
	name := fi.name
	if i.tracing {
		fmt.Fprintf(os.Stderr, "Entering %s\n", name)
	}
	if fi.model != nil {
		return fi.model(fr, args)
	}
	if fi.isInit {
		if !i.interpPkgs[fn.Pkg.Pkg.Path()] || i.inited[fn.Pkg] || noInitPkgs[fn.Pkg.Pkg.Path()] {
			return nil
		}
		i.inited[fn.Pkg] = true
	}
	if fi.stub {
		return zeroResults(fn)
	}
	if fn.Blocks == nil {
		// wrapper for an interface method of an unbuilt package etc.
		panic(pathEnd{"unsupported", "no code for function: " + name + " called from " + callChain(caller)})
	}
	if !fi.interpOK {
		panic(pathEnd{"unsupported", "call into non-interpreted package: " + name + " called from " + callChain(caller)})
	}
	if fn.TypeParams().Len() > 0 && len(fn.TypeArgs()) == 0 {
		panic("interp requires ssa.BuilderMode to include InstantiateGenerics to execute generics")
	}
	fr.info = fi
	if G != nil && fi.pkg != "" {
		G.funcs[fi.name]++
	}
	fr.env = make([]value, fi.n)
	fr.block = fn.Blocks[0]
	fr.locals = make([]value, len(fn.Locals))
	for i, l := range fn.Locals {
		fr.locals[i] = zero(mustDeref(l.Type()))
		fr.set(l, &fr.locals[i])
	}
	for i, p := range fn.Params {
		fr.set(p, args[i])
	}
	for i, fv := range fn.FreeVars {
		fr.set(fv, env[i])
	}
	for fr.block != nil {
		runFrame(fr)
	}
	return fr.result
}

func runFrame(fr *frame) {
	defer func() {
		if fr.block == nil {
			return // normal return
		}
		p := recover()
		if isPathEnd(p) {
			panic(p)
		}
		if _, ok := p.(string); ok {
			// interpreter-internal panic (a bug in the engine or an unmodelled construct)
			panic(pathEnd{"engine-error", fmt.Sprintf("interpreter panic in %s: %v", fr.fn, p)})
		}
		if re, ok := p.(runtime.Error); ok {
			if _, mine := p.(runtimeError); !mine {
				msg := re.Error()
				// host runtime errors that mirror target semantics
				if !strings.Contains(msg, "divide by zero") {
					buf := make([]byte, 1<<14)
					n := runtime.Stack(buf, false)
					panic(pathEnd{"engine-error", fmt.Sprintf("host runtime error in %s: %v\n%s", fr.fn, p, buf[:n])})
				}
			}
		}
		if !unwinding {
			unwinding = true
			lastPanicSite = fr.fn.String()
			if fr.cur != nil {
				lastPanicSite += "@" + siteOf(fr, fr.cur)
			}
		}
		fr.panicking = true
		fr.panic = p
		fr.runDefers()
		fr.block = fr.fn.Recover
	}()

	for {
		nonPhis := executePhis(fr)
		if G != nil {
			G.instrs += int64(len(nonPhis))
			if G.instrs > G.budget {
				panic(pathEnd{"budget", "instruction budget exceeded"})
			}
		}
		for _, instr := range nonPhis {
			if fr.i.tracing {
				if v, ok := instr.(ssa.Value); ok {
					fmt.Fprintln(os.Stderr, "\t", v.Name(), "=", instr)
				} else {
					fmt.Fprintln(os.Stderr, "\t", instr)
				}
			}
			fr.cur = instr
			curFrame = fr
			if visitInstr(fr, instr) == kReturn {
				return
			}
		}
	}
}

func executePhis(fr *frame) []ssa.Instruction {
	firstNonPhi := -1
	for i, instr := range fr.block.Instrs {
		if _, ok := instr.(*ssa.Phi); !ok {
			firstNonPhi = i
			break
		}
	}
	nonPhis := fr.block.Instrs[firstNonPhi:]
	if firstNonPhi > 0 {
		phis := fr.block.Instrs[:firstNonPhi]
		predIndex := slices.Index(fr.block.Preds, fr.prevBlock)
		fr.phitemps = fr.phitemps[:0]
		for _, phi := range phis {
			phi := phi.(*ssa.Phi)
			fr.phitemps = append(fr.phitemps, fr.get(phi.Edges[predIndex]))
		}
		for i, phi := range phis {
			fr.set(phi.(*ssa.Phi), fr.phitemps[i])
		}
	}
	return nonPhis
}

// doRecover implements the recover() built-in.
func doRecover(caller *frame) value {
	if caller != nil && !caller.panicking &&
		caller.caller != nil && caller.caller.panicking {
		caller.caller.panicking = false
		unwinding = false
		p := caller.caller.panic
		caller.caller.panic = nil
		switch p := p.(type) {
		case targetPanic:
			return p.v
		case runtime.Error:
			return iface{caller.i.runtimeErrorString, p.Error()}
		default:
			panic(fmt.Sprintf("unexpected panic type %T in target call to recover()", p))
		}
	}
	return iface{}
}

// panicMessage renders a recovered target panic payload.
func panicMessage(p interface{}) string {
	switch p := p.(type) {
	case targetPanic:
		if it, ok := p.v.(iface); ok {
			if s, ok := it.v.(string); ok {
				return s
			}
			return fmt.Sprintf("(%v) %s", it.t, toString(it.v))
		}
		return toString(p.v)
	case runtime.Error:
		return p.Error()
	}
	return fmt.Sprint(p)
}

func newInterpreter(prog *ssa.Program, interpPkgs map[string]bool) *interpreter {
	i := &interpreter{
		prog:       prog,
		globals:    make(map[*ssa.Global]*value),
		sizes:      &types.StdSizes{WordSize: 8, MaxAlign: 8},
		interpPkgs: interpPkgs,
		inited:     map[*ssa.Package]bool{},
	}
	runtimePkg := prog.ImportedPackage("runtime")
	if runtimePkg == nil {
		panic("ssa.Program doesn't include runtime package")
	}
	i.runtimeErrorString = runtimePkg.Type("errorString").Object().Type()
	for _, pkg := range prog.AllPackages() {
		if !interpPkgs[pkg.Pkg.Path()] {
			continue
		}
		for _, m := range pkg.Members {
			if v, ok := m.(*ssa.Global); ok {
				cell := zero(mustDeref(v.Type()))
				i.globals[v] = &cell
			}
		}
	}
	return i
}
