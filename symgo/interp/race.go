package interp

// Happens-before race monitor (FastTrack-style, simplified): active only when raceOn.

import (
	"fmt"
	"sort"

	"golang.org/x/tools/go/ssa"
)

var raceOn bool

type shadow struct {
	wTid, wClk int
	wSite      string
	reads      map[int]int // tid -> clk
	rSites     map[int]string
}

var shadows map[interface{}]*shadow
var raceSet map[string]bool

func raceReset() {
	raceOn = false
	shadows = map[interface{}]*shadow{}
	raceSet = map[string]bool{}
}

func raceReports() []string {
	var r []string
	for k := range raceSet {
		r = append(r, k)
	}
	sort.Strings(r)
	return r
}

func raceSite(fr *frame, instr ssa.Instruction) string {
	return siteOf(fr, instr)
}

func raceAccess(key interface{}, write bool, site string) {
	g := S.cur
	sh := shadows[key]
	if sh == nil {
		sh = &shadow{wTid: -1, reads: map[int]int{}, rSites: map[int]string{}}
		shadows[key] = sh
	}
	if sh.wTid >= 0 && sh.wTid != g.id && !g.vc.covers(sh.wTid, sh.wClk) {
		reportRace(sh.wSite, site, "write", kindStr(write))
	}
	if write {
		for t, c := range sh.reads {
			if t != g.id && !g.vc.covers(t, c) {
				reportRace(sh.rSites[t], site, "read", "write")
			}
		}
		sh.wTid, sh.wClk, sh.wSite = g.id, g.vc[g.id], site
		sh.reads = map[int]int{}
		sh.rSites = map[int]string{}
	} else {
		sh.reads[g.id] = g.vc[g.id]
		sh.rSites[g.id] = site
	}
}

func kindStr(w bool) string {
	if w {
		return "write"
	}
	return "read"
}

func reportRace(a, b, ka, kb string) {
	if a > b {
		a, b = b, a
		ka, kb = kb, ka
	}
	raceSet[fmt.Sprintf("%s(%s) <-> %s(%s)", a, ka, b, kb)] = true
}

func raceRead(p *value, fr *frame, instr ssa.Instruction) {
	if raceOn && len(S.threads) > 1 {
		raceAccess(p, false, raceSite(fr, instr))
	}
}

func raceWrite(p *value, fr *frame, instr ssa.Instruction) {
	if raceOn && len(S.threads) > 1 {
		raceAccess(p, true, raceSite(fr, instr))
	}
}

func raceMap(m *omap, write bool) {
	if raceOn && m != nil && len(S.threads) > 1 {
		raceAccess(m, write, "map@"+curSite())
	}
}

func raceWriteSlice(s []value) {
	if raceOn && len(s) > 0 && len(S.threads) > 1 {
		for i := range s {
			raceAccess(&s[i], true, "copy@"+curSite())
		}
	}
}

var curFrame *frame

func curSite() string {
	if curFrame != nil && curFrame.cur != nil {
		return siteOf(curFrame, curFrame.cur)
	}
	return "?"
}
