package interp

// Models of sync, sync/atomic primitives on top of the deterministic scheduler.

import (
	"fmt"
	"go/types"
)

type lockState struct {
	writer  bool
	readers int
	wwait   int    // goroutines blocked in RWMutex.Lock
	vc      vclock // release clock (writers)
	rvc     vclock // release clock of readers
}

type wgState struct {
	n  int
	vc vclock
}

var locks map[*value]*lockState
var wgs map[*value]*wgState

func syncReset() {
	locks = map[*value]*lockState{}
	wgs = map[*value]*wgState{}
}

func lockOf(p *value) *lockState {
	l := locks[p]
	if l == nil {
		l = &lockState{vc: vclock{}, rvc: vclock{}}
		locks[p] = l
	}
	return l
}

func fatal(msg string) {
	panic(targetPanic{iface{types.Typ[types.String], "fatal error: " + msg}})
}

func mLock(p *value, what string) {
	if S.yieldAtLocks {
		S.yield(what)
	}
	l := lockOf(p)
	free := func() bool { return !l.writer && l.readers == 0 }
	if what == "RWMutex.Lock" && !free() {
		// a pending writer keeps new readers out (sync.RWMutex): a goroutine that read-locks
		// twice deadlocks with a writer arriving in between
		l.wwait++
		S.block(free, what)
		l.wwait--
	} else {
		S.block(free, what)
	}
	l.writer = true
	g := S.cur
	g.vc.join(l.vc)
	g.vc.join(l.rvc)
}

func mUnlock(p *value, what string) {
	l := lockOf(p)
	if !l.writer {
		fatal("sync: unlock of unlocked mutex")
	}
	g := S.cur
	l.vc = g.vc.copy()
	g.vc[g.id]++
	l.writer = false
	if S.yieldAtLocks {
		S.yield(what)
	}
}

func mRLock(p *value) {
	if S.yieldAtLocks {
		S.yield("RLock")
	}
	l := lockOf(p)
	S.block(func() bool { return !l.writer && l.wwait == 0 }, "RLock")
	l.readers++
	S.cur.vc.join(l.vc)
}

func mRUnlock(p *value) {
	l := lockOf(p)
	if l.readers == 0 {
		fatal("sync: RUnlock of unlocked RWMutex")
	}
	g := S.cur
	l.rvc.join(g.vc)
	g.vc[g.id]++
	l.readers--
	if S.yieldAtLocks {
		S.yield("RUnlock")
	}
}

func atomicStep(site string) {
	if S.yieldAtLocks {
		S.yield("atomic:" + site)
	}
}

func init() {
	reg("sync.runtime_registerPoolCleanup", func(fr *frame, a []value) value { return nil })
	reg("sync.runtime_notifyListCheck", func(fr *frame, a []value) value { return nil })
	reg("sync.throw", func(fr *frame, a []value) value { fatal(str(a[0])); return nil })
	reg("sync.fatal", func(fr *frame, a []value) value { fatal(str(a[0])); return nil })
	reg("(*sync.Mutex).Lock", func(fr *frame, a []value) value { mLock(a[0].(*value), "Mutex.Lock"); return nil })
	reg("(*sync.Mutex).Unlock", func(fr *frame, a []value) value { mUnlock(a[0].(*value), "Mutex.Unlock"); return nil })
	reg("(*sync.Mutex).TryLock", func(fr *frame, a []value) value {
		l := lockOf(a[0].(*value))
		if l.writer || l.readers > 0 {
			return false
		}
		l.writer = true
		S.cur.vc.join(l.vc)
		return true
	})
	reg("(*sync.RWMutex).Lock", func(fr *frame, a []value) value { mLock(a[0].(*value), "RWMutex.Lock"); return nil })
	reg("(*sync.RWMutex).Unlock", func(fr *frame, a []value) value { mUnlock(a[0].(*value), "RWMutex.Unlock"); return nil })
	reg("(*sync.RWMutex).RLock", func(fr *frame, a []value) value { mRLock(a[0].(*value)); return nil })
	reg("(*sync.RWMutex).RUnlock", func(fr *frame, a []value) value { mRUnlock(a[0].(*value)); return nil })
	reg("(*sync.WaitGroup).Add", func(fr *frame, a []value) value {
		p := a[0].(*value)
		w := wgs[p]
		if w == nil {
			w = &wgState{vc: vclock{}}
			wgs[p] = w
		}
		d := int(asInt64(a[1]))
		w.n += d
		if w.n < 0 {
			panic(targetPanic{iface{types.Typ[types.String], "sync: negative WaitGroup counter"}})
		}
		if d < 0 {
			g := S.cur
			w.vc.join(g.vc)
			g.vc[g.id]++
		}
		return nil
	})
	reg("(*sync.WaitGroup).Wait", func(fr *frame, a []value) value {
		p := a[0].(*value)
		w := wgs[p]
		if w == nil {
			return nil
		}
		S.yield("WaitGroup.Wait")
		S.block(func() bool { return w.n == 0 }, "WaitGroup.Wait")
		S.cur.vc.join(w.vc)
		return nil
	})
	reg("(*sync.Pool).Get", func(fr *frame, a []value) value {
		p := a[0].(*value)
		st := (*p).(structure)
		// field "New func() any" is the last field
		nf := st[len(st)-1]
		switch f := nf.(type) {
		case *closure:
			return call(I, fr, 0, f, nil)
		default:
			if fn, ok := nf.(interface{ String() string }); ok && fn != nil {
				_ = fn
			}
		}
		if fnv, ok := nf.(*closure); ok && fnv != nil {
			return call(I, fr, 0, fnv, nil)
		}
		if isNilFunc(nf) {
			return iface{}
		}
		return call(I, fr, 0, nf, nil)
	})
	reg("(*sync.Pool).Put", func(fr *frame, a []value) value { return nil })

	// sync/atomic
	for _, ty := range []string{"Int32", "Int64", "Uint32", "Uint64", "Uintptr"} {
		ty := ty
		reg("sync/atomic.Load"+ty, func(fr *frame, a []value) value { atomicStep("load"); return *(a[0].(*value)) })
		reg("sync/atomic.Store"+ty, func(fr *frame, a []value) value { atomicStep("store"); *(a[0].(*value)) = a[1]; return nil })
		reg("sync/atomic.Add"+ty, func(fr *frame, a []value) value {
			atomicStep("add")
			p := a[0].(*value)
			*p = binop(tokADD, nil, *p, a[1])
			return *p
		})
		reg("sync/atomic.Swap"+ty, func(fr *frame, a []value) value {
			atomicStep("swap")
			p := a[0].(*value)
			old := *p
			*p = a[1]
			return old
		})
		reg("sync/atomic.CompareAndSwap"+ty, func(fr *frame, a []value) value {
			atomicStep("cas")
			p := a[0].(*value)
			eq := equalsV(nil, *p, a[1])
			if truth(eq, "atomic.cas") {
				*p = a[2]
				return true
			}
			return false
		})
	}
	reg("sync/atomic.LoadPointer", func(fr *frame, a []value) value { atomicStep("load"); return *(a[0].(*value)) })
	reg("sync/atomic.StorePointer", func(fr *frame, a []value) value { atomicStep("store"); *(a[0].(*value)) = a[1]; return nil })
	// atomic.Value: the interface value is kept in the first field
	reg("(*sync/atomic.Value).Load", func(fr *frame, a []value) value {
		atomicStep("value.load")
		st := (*(a[0].(*value))).(structure)
		if it, ok := st[0].(iface); ok {
			return it
		}
		return iface{}
	})
	reg("(*sync/atomic.Value).Store", func(fr *frame, a []value) value {
		atomicStep("value.store")
		st := (*(a[0].(*value))).(structure)
		st[0] = a[1]
		return nil
	})
	// typed atomics (generic Pointer[T] etc. have bodies using unsafe)
	reg("runtime.Gosched", func(fr *frame, a []value) value { S.yield("Gosched"); return nil })
	reg("runtime.KeepAlive", func(fr *frame, a []value) value { return nil })
	reg("runtime.SetFinalizer", func(fr *frame, a []value) value { return nil })
	reg("runtime.NumCPU", func(fr *frame, a []value) value { return int(4) })
	reg("runtime.GOMAXPROCS", func(fr *frame, a []value) value { return int(4) })
	reg("runtime/debug.Stack", func(fr *frame, a []value) value { return bytesToValues([]byte("<stack>")) })
	reg("runtime/debug.PrintStack", func(fr *frame, a []value) value { return nil })
}

func isNilFunc(v value) bool {
	switch f := v.(type) {
	case nil:
		return true
	case *closure:
		return f == nil
	default:
		return fmt.Sprintf("%v", v) == "<nil>"
	}
}

func init() {
	// reflection is outside the interpreter; package initialisers that merely record a
	// reflect.Type get an opaque token whose use aborts the path (engine-error, never a pass).
	opaque := func(fr *frame, a []value) value { return iface{t: types.Typ[types.UnsafePointer], v: "opaque-reflect"} }
	reg("reflect.TypeOf", opaque)
}
