package interp

// Capacity growth of append, as the gc runtime of the pinned toolchain (go1.23, amd64) does it:
// whether two appends to the same slice share a backing array depends on it, and code under
// test that appends to a shared prefix is only judged correctly if the engine aliases exactly
// where the compiled program does.  (runtime.growslice, nextslicecap, roundupsize.)

import "go/types"

var sizeClasses = []int64{0, 8, 16, 24, 32, 48, 64, 80, 96, 112, 128, 144, 160, 176, 192, 208, 224, 240, 256,
	288, 320, 352, 384, 416, 448, 480, 512, 576, 640, 704, 768, 896, 1024, 1152, 1280, 1408, 1536, 1792, 2048,
	2304, 2688, 3072, 3200, 3456, 4096, 4864, 5376, 6144, 6528, 6784, 6912, 8192, 9472, 9728, 10240, 10880,
	12288, 13568, 14336, 16384, 18432, 19072, 20480, 21760, 24576, 27264, 28672, 32768}

var gcSizes = types.SizesFor("gc", "amd64")

func roundUpSize(size int64, noscan bool) int64 {
	req := size
	if req <= 32768-8 {
		if !noscan && req > 512 {
			req += 8 // malloc header
		}
		for _, c := range sizeClasses {
			if c >= req {
				return c - (req - size)
			}
		}
	}
	req += 8192 - 1
	return req &^ (8192 - 1)
}

func nextSliceCap(newLen, oldCap int64) int64 {
	newcap := oldCap
	doublecap := newcap + newcap
	if newLen > doublecap {
		return newLen
	}
	const threshold = 256
	if oldCap < threshold {
		return doublecap
	}
	for {
		newcap += (newcap + 3*threshold) >> 2
		if uint64(newcap) >= uint64(newLen) {
			break
		}
	}
	if newcap <= 0 {
		return newLen
	}
	return newcap
}

func hasPointers(t types.Type) bool {
	switch u := t.Underlying().(type) {
	case *types.Basic:
		return u.Kind() == types.String || u.Kind() == types.UnsafePointer
	case *types.Array:
		return u.Len() > 0 && hasPointers(u.Elem())
	case *types.Struct:
		for i := 0; i < u.NumFields(); i++ {
			if hasPointers(u.Field(i).Type()) {
				return true
			}
		}
		return false
	}
	return true
}

func growCap(newLen, oldCap int64, elem types.Type) int64 {
	size := gcSizes.Sizeof(elem)
	if size == 0 {
		return newLen
	}
	noscan := !hasPointers(elem)
	nc := nextSliceCap(newLen, oldCap)
	return roundUpSize(nc*size, noscan) / size
}

// goAppend appends src to dst the way compiled code does: in place when the capacity allows,
// otherwise into a fresh array of the capacity growslice would pick.
func goAppend(dst, src []value, elem types.Type) []value {
	newLen := len(dst) + len(src)
	if newLen <= cap(dst) {
		return append(dst, src...)
	}
	nc := int(growCap(int64(newLen), int64(cap(dst)), elem))
	if nc < newLen {
		nc = newLen
	}
	out := make([]value, newLen, nc)
	copy(out, dst)
	copy(out[len(dst):], src)
	if nc > newLen && nc-newLen <= 64 {
		spare := out[newLen:nc]
		for i := range spare {
			spare[i] = zero(elem)
		}
	}
	return out
}
