package interp

// Environment models and harness intrinsics. Keys are ssa.Function.String().

import (
	"bytes"
	"fmt"
	"go/token"
	"go/types"
	"strings"

	"golang.org/x/crypto/sha3"
	"golang.org/x/tools/go/ssa"

	"symgo/smt"
)

type modelFn func(fr *frame, args []value) value

var models = map[string]modelFn{}

const vpPkg = "verifharness/vp."

var (
	smtBool = smt.Bool
	smtULt  = smt.OULt
	smtULe  = smt.OULe
	smtSLt  = smt.OSLt
	smtSLe  = smt.OSLe
)

func smtBV(w int) smt.Sort { return smt.BV(w) }

const tokADD = token.ADD

func reg(name string, f modelFn) { models[name] = f }

func str(v value) string {
	s, ok := v.(string)
	if !ok {
		panic(pathEnd{"unsupported", fmt.Sprintf("intrinsic needs a concrete string, got %T", v)})
	}
	return s
}

func symInput(name string, k types.BasicKind) value {
	if k == types.Bool {
		return sym{G.newInput(name, smt.Bool), k}
	}
	if k == types.Float64 {
		bits := G.newInput(name, smt.BV(64))
		return sym{G.ctx.App(smt.OBitsToFP, smt.FP, bits), k}
	}
	w, _ := kindWidth(k)
	return sym{G.newInput(name, smt.BV(w)), k}
}

func init() {
	// ---- harness intrinsics
	reg(vpPkg+"Symbolic", func(fr *frame, a []value) value { return true })
	reg(vpPkg+"Uint64", func(fr *frame, a []value) value { return symInput(str(a[0]), types.Uint64) })
	reg(vpPkg+"Int64", func(fr *frame, a []value) value { return symInput(str(a[0]), types.Int64) })
	reg(vpPkg+"Byte", func(fr *frame, a []value) value { return symInput(str(a[0]), types.Uint8) })
	reg(vpPkg+"Bool", func(fr *frame, a []value) value { return symInput(str(a[0]), types.Bool) })
	reg(vpPkg+"Float64", func(fr *frame, a []value) value { return symInput(str(a[0]), types.Float64) })
	reg(vpPkg+"Bytes", func(fr *frame, a []value) value {
		n := int(asInt64(a[1]))
		res := make([]value, n)
		for i := range res {
			res[i] = symInput(fmt.Sprintf("%s[%d]", str(a[0]), i), types.Uint8)
		}
		return res
	})
	reg(vpPkg+"Choose", func(fr *frame, a []value) value {
		n := asInt64(a[1])
		if n <= 0 {
			panic(pathEnd{"infeasible", "Choose over empty range"})
		}
		if n == 1 {
			return int(0)
		}
		c := G.ctx
		x := G.newInput(str(a[0]), smt.BV(64))
		G.assume(c.App(smt.OULt, smt.Bool, x, c.Const(smt.BV(64), uint64(n))))
		return int(G.decideValue(x, false, "choose:"+str(a[0])))
	})
	reg(vpPkg+"Param", func(fr *frame, a []value) value {
		if v, ok := G.params[str(a[0])]; ok {
			return int(v)
		}
		return a[1]
	})
	reg(vpPkg+"Assume", func(fr *frame, a []value) value {
		G.assume(termOf(a[0]))
		return nil
	})
	reg(vpPkg+"Assert", func(fr *frame, a []value) value {
		site := ""
		if fr.caller != nil {
			site = fr.caller.fn.String()
		}
		G.assert(str(a[0]), termOf(a[1]), site)
		return nil
	})
	reg(vpPkg+"Known", func(fr *frame, a []value) value {
		G.known(str(a[0]), str(a[1]), termOf(a[2]))
		return nil
	})
	reg(vpPkg+"Cover", func(fr *frame, a []value) value {
		G.covers[str(a[0])] = true
		return nil
	})
	reg(vpPkg+"Observe", func(fr *frame, a []value) value {
		G.observe(str(a[0]), a[1].([]value))
		return nil
	})
	reg(vpPkg+"NoPanic", vpNoPanic)
	reg(vpPkg+"Mul128", func(fr *frame, a []value) value {
		c := G.ctx
		x, y := termOf(a[0]), termOf(a[1])
		p := c.App(smt.OMul, smt.BV(128), c.ZExt(x, 128), c.ZExt(y, 128))
		return tuple{mkSym(c.Extract(p, 127, 64), types.Uint64), mkSym(c.Extract(p, 63, 0), types.Uint64)}
	})
	reg(vpPkg+"And", func(fr *frame, a []value) value { return symBool(G.ctx.And(termOf(a[0]), termOf(a[1]))) })
	reg(vpPkg+"Or", func(fr *frame, a []value) value { return symBool(G.ctx.Or(termOf(a[0]), termOf(a[1]))) })
	reg(vpPkg+"Implies", func(fr *frame, a []value) value {
		return symBool(G.ctx.Or(G.ctx.Not(termOf(a[0])), termOf(a[1])))
	})
	reg(vpPkg+"IteU64", func(fr *frame, a []value) value {
		return mkSym(G.ctx.Ite(termOf(a[0]), termOf(a[1]), termOf(a[2])), types.Uint64)
	})
	reg(vpPkg+"Concrete", func(fr *frame, a []value) value {
		// Concrete(x int) int: force concretisation (value decision)
		if sx, ok := a[0].(sym); ok {
			return concretize(sx, "vp.Concrete")
		}
		return a[0]
	})
	reg(vpPkg+"IsSym", func(fr *frame, a []value) value { return hasSymDeep(a[0], 0) })
	reg(vpPkg+"Yield", func(fr *frame, a []value) value { S.yield(str(a[0])); return nil })
	reg(vpPkg+"ExploreSchedules", func(fr *frame, a []value) value {
		S.explore = true
		S.preemptBound = int(asInt64(a[0]))
		return nil
	})
	reg(vpPkg+"FixedSchedule", func(fr *frame, a []value) value {
		S.explore = false
		return nil
	})
	reg(vpPkg+"YieldAtLocks", func(fr *frame, a []value) value { S.yieldAtLocks = a[0].(bool); return nil })
	reg(vpPkg+"Go", func(fr *frame, a []value) value {
		spawnAt(fr, token.NoPos, a[0], nil)
		return nil
	})
	reg(vpPkg+"Wait", func(fr *frame, a []value) value {
		S.block(func() bool {
			for _, t := range S.threads[1:] {
				if !t.done {
					return false
				}
			}
			return true
		}, "vp.Wait")
		// joining: everything the finished goroutines did happens-before the continuation
		for _, t := range S.threads[1:] {
			S.cur.vc.join(t.vc)
		}
		return nil
	})
	reg("github.com/0chain/common/core/statecache.verifYield", func(fr *frame, a []value) value {
		S.yield(str(a[0]))
		return nil
	})
	reg(vpPkg+"HighFirst", func(fr *frame, a []value) value { S.highFirst = a[0].(bool); return nil })
	reg(vpPkg+"RaceDetect", func(fr *frame, a []value) value { raceOn = a[0].(bool); return nil })
	reg(vpPkg+"Logf", func(fr *frame, a []value) value { return nil })

	// ---- hashing (DESIGN §3.1)
	reg("github.com/0chain/common/core/encryption.RawHash", modelRawHash)
}

func hasSymDeep(x value, depth int) bool {
	if depth > 6 {
		return false
	}
	switch x := x.(type) {
	case sym, symStr:
		return true
	case []value:
		for _, e := range x {
			if hasSymDeep(e, depth+1) {
				return true
			}
		}
	case array:
		return hasSymDeep([]value(x), depth)
	case structure:
		return hasSymDeep([]value(x), depth)
	case iface:
		return x.t != nil && hasSymDeep(x.v, depth+1)
	case *value:
		return x != nil && hasSymDeep(*x, depth+1)
	}
	return false
}

func vpNoPanic(fr *frame, a []value) (res value) {
	label := str(a[0])
	G.noPanicDepth++
	defer func() {
		G.noPanicDepth--
		p := recover()
		if p == nil {
			res = false
			return
		}
		if gp, ok := p.(goroutinePanic); ok {
			G.recordPanic(label, "panic in goroutine: "+panicMessage(gp.p), "goroutine:"+lastPanicSite, nil)
			panic(pathEnd{"ok", "panic in goroutine (recorded)"})
		}
		if isPathEnd(p) {
			panic(p)
		}
		if pe, ok := p.(pathEnd); ok {
			panic(pe)
		}
		msg := panicMessage(p)
		unwinding = false
		G.recordPanic(label, msg, lastPanicSite, nil)
		res = true
	}()
	lastPanicSite = ""
	callNoPanic(fr, a[1])
	return false
}

var lastPanicSite string

func callNoPanic(fr *frame, fn value) {
	defer func() {
		if p := recover(); p != nil {
			panic(p)
		}
	}()
	call(fr.i, fr, token.NoPos, fn, nil)
}

// observe records values; symbolic parts are evaluated under the final model at path end.
func (ps *pathState) observe(label string, vals []value) {
	ps.obsPending = append(ps.obsPending, pendingObs{label, vals})
}

type pendingObs struct {
	label string
	vals  []value
}

func (ps *pathState) finishObs() {
	for _, o := range ps.obsPending {
		var sb strings.Builder
		for i, v := range o.vals {
			if i > 0 {
				sb.WriteByte(' ')
			}
			if it, ok := v.(iface); ok {
				v = it.v
				if it.t == nil {
					sb.WriteString("<nil>")
					continue
				}
			}
			ps.writeObs(&sb, v, 0)
		}
		ps.obs = append(ps.obs, Observation{o.label, sb.String()})
	}
}

func (ps *pathState) writeObs(sb *strings.Builder, v value, depth int) {
	switch x := v.(type) {
	case sym:
		bits := ps.eval.Eval(x.t)
		fmt.Fprintf(sb, "%v", concreteOf(x.k, bits))
	case []value:
		if x == nil {
			sb.WriteString("nil")
			return
		}
		isBytes := len(x) > 0
		for _, e := range x {
			k, ok := kindOf(e)
			if !ok || k != types.Uint8 {
				isBytes = false
			}
		}
		if isBytes {
			for _, e := range x {
				var b uint8
				if s, ok := e.(sym); ok {
					b = uint8(ps.eval.Eval(s.t))
				} else {
					b = e.(uint8)
				}
				fmt.Fprintf(sb, "%02x", b)
			}
			return
		}
		sb.WriteString("[")
		for i, e := range x {
			if i > 0 {
				sb.WriteByte(' ')
			}
			ps.writeObs(sb, e, depth+1)
		}
		sb.WriteString("]")
	case symStr:
		for _, e := range x {
			var b uint8
			if s, ok := e.(sym); ok {
				b = uint8(ps.eval.Eval(s.t))
			} else {
				b = e.(uint8)
			}
			sb.WriteByte(b)
		}
	case string:
		sb.WriteString(x)
	case bool, int, int8, int16, int32, int64, uint, uint8, uint16, uint32, uint64, uintptr, float64:
		fmt.Fprintf(sb, "%v", x)
	case iface:
		if x.t == nil {
			sb.WriteString("<nil>")
		} else {
			ps.writeObs(sb, x.v, depth+1)
		}
	default:
		fmt.Fprintf(sb, "<%T>", v)
	}
}

// ---------------------------------------------------------------- hashing

func toByteValues(v value) []value {
	switch x := v.(type) {
	case []value:
		return x
	case array:
		return []value(x)
	case string:
		r := make([]value, len(x))
		for i := 0; i < len(x); i++ {
			r[i] = x[i]
		}
		return r
	case symStr:
		return []value(x)
	}
	panic(pathEnd{"unsupported", fmt.Sprintf("hash input %T", v)})
}

func allConcreteBytes(in []value) ([]byte, bool) {
	b := make([]byte, len(in))
	for i, e := range in {
		c, ok := e.(uint8)
		if !ok {
			return nil, false
		}
		b[i] = c
	}
	return b, true
}

func bytesToValues(b []byte) []value {
	r := make([]value, len(b))
	for i, x := range b {
		r[i] = x
	}
	return r
}

func modelRawHash(fr *frame, a []value) value {
	it := a[0].(iface)
	if it.t == nil {
		panic(targetPanic{iface{types.Typ[types.String], "unknown type"}})
	}
	switch it.t.Underlying().(type) {
	case *types.Slice, *types.Array, *types.Basic:
	default:
		panic(targetPanic{iface{types.Typ[types.String], "unknown type"}})
	}
	in := toByteValues(it.v)
	out := G.hashOf(in)
	return bytesToValues(out[:])
}

// hashOf implements the injective-hash abstraction.
func (ps *pathState) hashOf(in []value) [32]byte {
	cb, conc := allConcreteBytes(in)
	if conc {
		if out, ok := ps.concHash[string(cb)]; ok {
			return out
		}
	}
	snapshot := make([]value, len(in))
	copy(snapshot, in)
	// compare with every earlier input of this length that is not byte-for-byte decided already:
	// a symbolic input against symbolic and concrete ones, a concrete input against symbolic ones
	for _, i := range ps.hashByLen[len(in)] {
		e := &ps.hashes[i]
		if conc && e.cb != nil {
			continue
		}
		if e.cb != nil {
			if concreteMismatchB(e.cb, snapshot) {
				continue
			}
			if e.in == nil {
				e.in = bytesToValues(e.cb)
			}
		} else if concreteMismatch(e.in, snapshot) {
			continue
		}
		eq := bytesEqTerm(e.in, snapshot)
		if b, ok := eq.(bool); ok {
			if !b {
				continue
			}
		} else if !ps.decideBool(eq.(sym).t, fmt.Sprintf("hash#%d=%d", len(ps.hashes), i)) {
			continue
		}
		if conc {
			ps.concHash[string(cb)] = e.out
		}
		return e.out
	}
	if ps.absHashes == nil {
		ps.absHashes = map[[32]byte]bool{}
		ps.concHash = map[string][32]byte{}
		ps.hashByLen = map[int][]int{}
	}
	var out [32]byte
	if conc {
		out = sha3.Sum256(cb)
		// a real hash of bytes that embed an abstract hash value is itself abstract
		for h := range ps.absHashes {
			if bytes.Contains(cb, h[:]) {
				ps.absHashes[out] = true
				break
			}
		}
		ps.concHash[string(cb)] = out
		ps.hashes = append(ps.hashes, hashEntry{cb: cb, out: out})
	} else {
		ps.tokenCtr++
		out = sha3.Sum256([]byte(fmt.Sprintf("symgo-token-%d", ps.tokenCtr)))
		ps.absHashes[out] = true
		ps.hashes = append(ps.hashes, hashEntry{in: snapshot, out: out})
		ps.symHashes++
	}
	ps.hashByLen[len(in)] = append(ps.hashByLen[len(in)], len(ps.hashes)-1)
	return out
}

// concreteMismatch reports whether a and b differ at a position where both are concrete.
func concreteMismatch(a, b []value) bool {
	for i := range a {
		if x, ok := a[i].(uint8); ok {
			if y, ok := b[i].(uint8); ok && x != y {
				return true
			}
		}
	}
	return false
}

func concreteMismatchB(a []byte, b []value) bool {
	for i := range a {
		if y, ok := b[i].(uint8); ok && a[i] != y {
			return true
		}
	}
	return false
}

// noteTokenEq records the symbolic equality eq of the byte sequences a and b when it compares a
// symbolic byte with a byte of an abstract hash value (a 32-byte concrete window of the other
// side that is a token or a real hash derived from one). A model that makes such an equality
// true fixes an input byte to a token byte, which says nothing about the real SHA3 value.
func (ps *pathState) noteTokenEq(a, b []value, eq *smt.Term) {
	if len(ps.absHashes) == 0 || len(a) != len(b) || len(a) < 32 {
		return
	}
	touches := func(conc, other []value) bool {
		// run[i] = number of consecutive concrete bytes of conc ending at i
		run := 0
		var w [32]byte
		for i := range conc {
			if _, ok := conc[i].(uint8); ok {
				run++
			} else {
				run = 0
			}
			if run < 32 {
				continue
			}
			o := i - 31
			anySym := false
			for k := 0; k < 32; k++ {
				w[k] = conc[o+k].(uint8)
				if isSym(other[o+k]) {
					anySym = true
				}
			}
			if anySym && ps.absHashes[w] {
				return true
			}
		}
		return false
	}
	if touches(a, b) || touches(b, a) {
		ps.tokenEqs = append(ps.tokenEqs, eq)
	}
}

// ---------------------------------------------------------------- helpers for models

// method resolves a method of the dynamic type of an interface value.
func methodOf(t types.Type, name string) *ssa.Function {
	ms := I.prog.MethodSets.MethodSet(t)
	for i := 0; i < ms.Len(); i++ {
		if ms.At(i).Obj().Name() == name {
			return I.prog.MethodValue(ms.At(i))
		}
	}
	return nil
}

func callMethod(fr *frame, recv iface, name string, args ...value) value {
	fn := methodOf(recv.t, name)
	if fn == nil {
		panic(pathEnd{"engine-error", fmt.Sprintf("no method %s on %v", name, recv.t)})
	}
	return call(I, fr, token.NoPos, fn, append([]value{recv.v}, args...))
}

func symStrBinop(op token.Token, x, y value) value {
	switch op {
	case token.ADD:
		var r symStr
		r = append(r, toByteValues(x)...)
		r = append(r, toByteValues(y)...)
		return normStr(r)
	case token.EQL:
		return equalsV(types.Typ[types.String], x, y)
	case token.NEQ:
		return notV(equalsV(types.Typ[types.String], x, y))
	}
	unsupported("string operator " + op.String() + " on symbolic strings")
	return nil
}

// normStr returns a Go string when all bytes are concrete.
func normStr(s symStr) value {
	if b, ok := allConcreteBytes(s); ok {
		return string(b)
	}
	return s
}
