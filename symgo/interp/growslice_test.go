package interp

import (
	"go/types"
	"testing"
)

type s24 struct{ a, b, c int64 }
type sp struct {
	p *int
	n int
}

func TestGrowCapMatchesRuntime(t *testing.T) {
	i64 := types.Typ[types.Int64]
	for oldLen := 0; oldLen < 1200; oldLen++ {
		for _, add := range []int{1, 2, 3, 5, 8, 33, 700} {
			{
				b := make([]byte, oldLen)
				got := cap(append(b, make([]byte, add)...))
				if w := growCap(int64(oldLen+add), int64(oldLen), types.Typ[types.Byte]); int(w) != got {
					t.Fatalf("byte old=%d add=%d runtime=%d model=%d", oldLen, add, got, w)
				}
			}
			{
				b := make([]int64, oldLen)
				got := cap(append(b, make([]int64, add)...))
				if w := growCap(int64(oldLen+add), int64(oldLen), i64); int(w) != got {
					t.Fatalf("int64 old=%d add=%d runtime=%d model=%d", oldLen, add, got, w)
				}
			}
			{
				b := make([]s24, oldLen)
				got := cap(append(b, make([]s24, add)...))
				st := types.NewStruct([]*types.Var{types.NewVar(0, nil, "a", i64), types.NewVar(0, nil, "b", i64), types.NewVar(0, nil, "c", i64)}, nil)
				if w := growCap(int64(oldLen+add), int64(oldLen), st); int(w) != got {
					t.Fatalf("s24 old=%d add=%d runtime=%d model=%d", oldLen, add, got, w)
				}
			}
			{
				b := make([]sp, oldLen)
				got := cap(append(b, make([]sp, add)...))
				st := types.NewStruct([]*types.Var{types.NewVar(0, nil, "p", types.NewPointer(i64)), types.NewVar(0, nil, "n", types.Typ[types.Int])}, nil)
				if w := growCap(int64(oldLen+add), int64(oldLen), st); int(w) != got {
					t.Fatalf("sp old=%d add=%d runtime=%d model=%d", oldLen, add, got, w)
				}
			}
			{
				b := make([]string, oldLen)
				got := cap(append(b, make([]string, add)...))
				if w := growCap(int64(oldLen+add), int64(oldLen), types.Typ[types.String]); int(w) != got {
					t.Fatalf("string old=%d add=%d runtime=%d model=%d", oldLen, add, got, w)
				}
			}
		}
	}
}
