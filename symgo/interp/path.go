package interp

// Per-path symbolic state: path condition, decisions (stateless re-execution),
// model-guided branching, assumptions, assertions, hash registry.

import (
	"fmt"
	"sort"
	"strings"

	"symgo/smt"
)

type DecKind int

const (
	DBool DecKind = iota
	DValue
)

// Decision is one resolved choice on a path.
type Decision struct {
	Kind     DecKind `json:"k"`
	Site     string  `json:"s"`
	Taken    int64   `json:"t"`
	Excluded []int64 `json:"x,omitempty"` // only on the last (pending) decision of a work item
}

// WorkItem is a path prefix plus a model satisfying its path condition.
type WorkItem struct {
	Prefix []Decision        `json:"prefix"`
	Model  map[string]uint64 `json:"model"`
}

type Violation struct {
	Label string            `json:"label"`
	Kind  string            `json:"kind"` // assert | panic | deadlock | race
	Site  string            `json:"site"`
	Msg   string            `json:"msg"`
	Model map[string]uint64 `json:"model"`
	Known []string          `json:"known,omitempty"` // ids of known-finding regions containing this model
	// TokenDep: the model sets an input byte equal to a byte of an abstract hash value (see PathResult.TokenDep)
	TokenDep bool `json:"token_dep,omitempty"`
}

type Observation struct {
	Label string `json:"label"`
	Val   string `json:"val"` // canonical text (concrete or evaluated under model)
}

// PathResult is what a worker reports for one executed path.
type PathResult struct {
	Outcome    string            `json:"outcome"` // ok | infeasible | unsupported | budget | engine-error | unknown
	Detail     string            `json:"detail,omitempty"`
	Decisions  int               `json:"decisions"`
	Trace      []Decision        `json:"trace,omitempty"`
	Model      map[string]uint64 `json:"model,omitempty"`
	New        []WorkItem        `json:"new,omitempty"`
	Violations []Violation       `json:"violations,omitempty"`
	Covers     []string          `json:"covers,omitempty"`
	Obs        []Observation     `json:"obs,omitempty"`
	Instrs     int64             `json:"instrs"`
	Asserts    int               `json:"asserts"` // assertion obligations discharged (unsat)
	AssertQ    int               `json:"assertq"` // assertion queries sent
	Hashes     int               `json:"hashes"`
	Inputs     []string          `json:"inputs,omitempty"`
	KnownSeen  []string          `json:"known_seen,omitempty"`
	Funcs      map[string]int64  `json:"funcs,omitempty"`
	Unknowns   int               `json:"unknowns"`
	Races      []string          `json:"races,omitempty"`
	QSat       int64             `json:"qsat"`
	QUnsat     int64             `json:"qunsat"`
	QUnknown   int64             `json:"qunknown"`
	QFallback  int64             `json:"qfallback"`
	QCross     int64             `json:"qcross"`
	SolverNs   int64             `json:"solver_ns"`
	Sched      []int             `json:"sched,omitempty"`
	// TokenDep: the final model makes an input byte equal to a byte of an abstract hash value
	// (token); such a model does not transfer to the real SHA3 and is not replayed natively
	TokenDep bool `json:"token_dep,omitempty"`
}

// pathEnd is the private panic payload that ends a path; no target recover may swallow it.
type pathEnd struct {
	outcome string
	detail  string
}

type hashEntry struct {
	in  []value // bytes (uint8 or sym); built on demand for an all-concrete input
	cb  []byte  // the input when it was all concrete (out is then the real SHA3, or the output of an equal earlier input)
	out [32]byte
}

type pathState struct {
	ctx   *smt.Ctx
	sess  *smt.Session
	model map[string]uint64
	eval  *smt.Evaluator

	prefix   []Decision
	pos      int
	trace    []Decision
	newItems []WorkItem

	nameCount map[string]int
	inputs    []string

	hashes    []hashEntry
	hashByLen map[int][]int       // input length -> indices into hashes
	concHash  map[string][32]byte // all-concrete input -> output
	symHashes int                 // applications to inputs with symbolic bytes that got a token
	tokenCtr  int
	// abstract hash values of this path: tokens, and real SHA3 values of concrete inputs that
	// embed one (DESIGN §3.1 "model transfer"); tokenEqs are the byte-sequence equalities in
	// which a symbolic byte was compared with a byte of such a value
	absHashes map[[32]byte]bool
	tokenEqs  []*smt.Term

	violations []Violation
	violated   map[string]bool
	covers     map[string]bool
	obs        []Observation
	knownRegs  map[string]*smt.Term // id -> region term (disjunction of Known() calls)
	knownOrder []string

	instrs   int64
	budget   int64
	asserts  int
	assertQ  int
	unknowns int

	params       map[string]int64
	noPanicDepth int
	crossCheck   bool
	funcs        map[string]int64
	pcTerms      []*smt.Term
	obsPending   []pendingObs
}

// G is the state of the path being executed (one path at a time per process).
var G *pathState

func newPathState(item WorkItem, params map[string]int64, proc *smt.Proc, budget int64) *pathState {
	ctx := smt.NewCtx()
	m := item.Model
	if m == nil {
		m = map[string]uint64{}
	}
	ps := &pathState{
		ctx: ctx, sess: smt.NewSession(proc, ctx), model: m, eval: smt.NewEvaluator(m),
		prefix: item.Prefix, nameCount: map[string]int{}, violated: map[string]bool{},
		covers: map[string]bool{}, knownRegs: map[string]*smt.Term{}, budget: budget, params: params,
		funcs: map[string]int64{},
	}
	return ps
}

func unsupported(what string) {
	panic(pathEnd{"unsupported", what})
}

func (ps *pathState) setModel(m map[string]uint64) {
	ps.model = m
	ps.eval = smt.NewEvaluator(m)
}

func (ps *pathState) addPC(t *smt.Term) {
	ps.sess.Assert(t)
	ps.pcTerms = append(ps.pcTerms, t)
}

// freshName makes input names unique per path, deterministically.
func (ps *pathState) freshName(base string) string {
	n := ps.nameCount[base]
	ps.nameCount[base] = n + 1
	if n == 0 {
		return base
	}
	return fmt.Sprintf("%s#%d", base, n)
}

func (ps *pathState) newInput(base string, s smt.Sort) *smt.Term {
	name := ps.freshName(base)
	ps.inputs = append(ps.inputs, name)
	return ps.ctx.Input(name, s)
}

func (ps *pathState) check(extra *smt.Term) (smt.Result, map[string]uint64) {
	r, m, err := ps.sess.Check(extra)
	if err != nil {
		panic(pathEnd{"engine-error", "solver: " + err.Error()})
	}
	if r == smt.Sat {
		// complete the model for inputs not yet declared to the solver
		for k, v := range ps.model {
			if _, ok := m[k]; !ok {
				_ = v
			}
		}
	}
	return r, m
}

func copyDecs(d []Decision) []Decision {
	c := make([]Decision, len(d))
	copy(c, d)
	return c
}

// decideBool resolves a symbolic branch condition.
func (ps *pathState) decideBool(cond *smt.Term, site string) bool {
	if cond.IsConst() {
		return cond.Val == 1
	}
	if ps.pos < len(ps.prefix) {
		d := ps.prefix[ps.pos]
		if d.Kind != DBool || d.Site != site {
			panic(pathEnd{"engine-error", fmt.Sprintf("nondeterministic re-execution at decision %d: want %v@%s got bool@%s", ps.pos, d.Kind, d.Site, site)})
		}
		ps.pos++
		taken := d.Taken == 1
		if taken {
			ps.addPC(cond)
		} else {
			ps.addPC(ps.ctx.Not(cond))
		}
		ps.trace = append(ps.trace, Decision{Kind: DBool, Site: site, Taken: d.Taken})
		return taken
	}
	taken := ps.eval.Eval(cond) == 1
	other := cond
	if taken {
		other = ps.ctx.Not(cond)
	}
	r, m := ps.check(other)
	switch r {
	case smt.Sat:
		alt := int64(1)
		if taken {
			alt = 0
		}
		pre := append(copyDecs(ps.trace), Decision{Kind: DBool, Site: site, Taken: alt})
		ps.newItems = append(ps.newItems, WorkItem{Prefix: pre, Model: m})
	case smt.Unknown:
		ps.unknowns++
	}
	ps.pos++
	var tk int64
	if taken {
		tk = 1
		ps.addPC(cond)
	} else {
		ps.addPC(ps.ctx.Not(cond))
	}
	ps.trace = append(ps.trace, Decision{Kind: DBool, Site: site, Taken: tk})
	return taken
}

func (ps *pathState) constLike(t *smt.Term, v int64) *smt.Term {
	return ps.ctx.Const(t.Sort, uint64(v))
}

// toInt64 interprets bits of term sort as signed/unsigned value.
func bitsToInt64(bits uint64, w int, signed bool) int64 {
	if signed && w < 64 {
		sh := uint(64 - w)
		return int64(bits<<sh) >> sh
	}
	return int64(bits)
}

// decideValue concretises a symbolic integer, enumerating all feasible values.
func (ps *pathState) decideValue(t *smt.Term, signed bool, site string) int64 {
	if t.IsConst() {
		return bitsToInt64(t.Val, t.Sort.W, signed)
	}
	w := t.Sort.W
	neqAll := func(ex []int64) *smt.Term {
		c := ps.ctx.True()
		for _, e := range ex {
			c = ps.ctx.And(c, ps.ctx.Not(ps.ctx.Eq(t, ps.constLike(t, e))))
		}
		return c
	}
	var excluded []int64
	if ps.pos < len(ps.prefix) {
		d := ps.prefix[ps.pos]
		if d.Kind != DValue || d.Site != site {
			panic(pathEnd{"engine-error", fmt.Sprintf("nondeterministic re-execution at decision %d: want %v@%s got value@%s", ps.pos, d.Kind, d.Site, site)})
		}
		if d.Excluded == nil {
			ps.pos++
			ps.addPC(ps.ctx.Eq(t, ps.constLike(t, d.Taken)))
			ps.trace = append(ps.trace, Decision{Kind: DValue, Site: site, Taken: d.Taken})
			return d.Taken
		}
		if ps.pos != len(ps.prefix)-1 {
			panic(pathEnd{"engine-error", "pending value decision not last in prefix"})
		}
		excluded = d.Excluded
	}
	// fresh (or pending) decision: value from the model
	v := bitsToInt64(ps.eval.Eval(t), w, signed)
	for _, e := range excluded {
		if e == v {
			panic(pathEnd{"engine-error", "model violates excluded value"})
		}
	}
	ex2 := append(append([]int64{}, excluded...), v)
	r, m := ps.check(neqAll(ex2))
	switch r {
	case smt.Sat:
		pre := append(copyDecs(ps.trace), Decision{Kind: DValue, Site: site, Excluded: ex2})
		ps.newItems = append(ps.newItems, WorkItem{Prefix: pre, Model: m})
	case smt.Unknown:
		ps.unknowns++
	}
	ps.pos++
	ps.addPC(ps.ctx.Eq(t, ps.constLike(t, v)))
	ps.trace = append(ps.trace, Decision{Kind: DValue, Site: site, Taken: v})
	return v
}

// assume adds c to the path condition; ends the path if infeasible.
func (ps *pathState) assume(c *smt.Term) {
	if c.IsTrue() {
		return
	}
	if c.IsFalse() {
		panic(pathEnd{"infeasible", "assume(false)"})
	}
	if ps.eval.Eval(c) == 1 {
		ps.addPC(c)
		return
	}
	r, m := ps.check(c)
	switch r {
	case smt.Sat:
		ps.addPC(c)
		ps.mergeModel(m)
	case smt.Unsat:
		panic(pathEnd{"infeasible", "assumption"})
	default:
		ps.unknowns++
		panic(pathEnd{"unknown", "assumption feasibility unknown"})
	}
}

// mergeModel installs a solver model, keeping values of inputs the solver has not seen.
func (ps *pathState) mergeModel(m map[string]uint64) {
	nm := make(map[string]uint64, len(ps.model)+len(m))
	for k, v := range ps.model {
		nm[k] = v
	}
	for k, v := range m {
		nm[k] = v
	}
	ps.setModel(nm)
}

func (ps *pathState) snapshotModel() map[string]uint64 {
	m := map[string]uint64{}
	for _, n := range ps.inputs {
		m[n] = ps.model[n]
	}
	return m
}

func modelWith(base map[string]uint64, names []string, m map[string]uint64) map[string]uint64 {
	r := map[string]uint64{}
	for _, n := range names {
		if v, ok := m[n]; ok {
			r[n] = v
		} else {
			r[n] = base[n]
		}
	}
	return r
}

// assert checks c on this path for all values; records a violation with a model otherwise.
func (ps *pathState) assert(label string, c *smt.Term, site string) {
	if c.IsTrue() {
		ps.asserts++
		return
	}
	notC := ps.ctx.Not(c)
	// exclude open known-finding regions
	outside := notC
	var regionIDs []string
	for _, id := range ps.knownOrder {
		if strings.HasPrefix(id, label+"|") {
			regionIDs = append(regionIDs, id)
			outside = ps.ctx.And(outside, ps.ctx.Not(ps.knownRegs[id]))
		}
	}
	record := func(m map[string]uint64, known []string) {
		key := label
		if len(known) > 0 {
			key = label + "|known|" + strings.Join(known, ",")
		}
		if ps.violated[key] {
			return
		}
		ps.violated[key] = true
		ps.violations = append(ps.violations, Violation{Label: label, Kind: "assert", Site: site, Model: m, Known: known, TokenDep: ps.tokenDepUnder(smt.NewEvaluator(m))})
	}
	// 1. violation outside known regions?
	found := false
	if !outside.IsFalse() {
		if ps.eval.Eval(outside) == 1 {
			record(ps.snapshotModel(), nil)
			found = true
		} else {
			ps.assertQ++
			r, m := ps.check(outside)
			switch r {
			case smt.Sat:
				record(modelWith(ps.model, ps.inputs, m), nil)
				found = true
			case smt.Unsat:
				if ps.crossCheck {
					agree, concl := ps.sess.CrossCheck(outside, smt.Unsat)
					if concl && !agree {
						panic(pathEnd{"engine-error", "solver disagreement on assertion " + label})
					}
				}
			default:
				ps.unknowns++
				panic(pathEnd{"unknown", "assertion " + label + " undecided"})
			}
		}
	}
	// 2. known regions still violating?
	for _, id := range regionIDs {
		q := ps.ctx.And(notC, ps.knownRegs[id])
		if q.IsFalse() {
			continue
		}
		kid := strings.SplitN(id, "|", 2)[1]
		if ps.eval.Eval(q) == 1 {
			record(ps.snapshotModel(), []string{kid})
			found = true
			continue
		}
		r, m := ps.check(q)
		if r == smt.Sat {
			record(modelWith(ps.model, ps.inputs, m), []string{kid})
			found = true
		}
	}
	if !found {
		ps.asserts++
		return
	}
	// continue the path on the side where the assertion holds
	ps.assume(c)
}

// known registers a known-finding region for assertions with the given label.
func (ps *pathState) known(label, id string, region *smt.Term) {
	key := label + "|" + id
	if old, ok := ps.knownRegs[key]; ok {
		ps.knownRegs[key] = ps.ctx.Or(old, region)
		return
	}
	ps.knownRegs[key] = region
	ps.knownOrder = append(ps.knownOrder, key)
}

func (ps *pathState) recordPanic(label, msg, site string, known []string) {
	key := label + "|panic|" + site
	if ps.violated[key] {
		return
	}
	ps.violated[key] = true
	ps.violations = append(ps.violations, Violation{Label: label, Kind: "panic", Site: site, Msg: msg, Model: ps.snapshotModel(), Known: known, TokenDep: ps.tokenDepUnder(ps.eval)})
}

// tokenDepUnder reports whether the model behind ev makes a recorded equality between an input
// byte and an abstract hash byte true (DESIGN §3.1 "model transfer").
func (ps *pathState) tokenDepUnder(ev *smt.Evaluator) bool {
	for _, t := range ps.tokenEqs {
		if ev.Eval(t) == 1 {
			return true
		}
	}
	return false
}

func (ps *pathState) result(outcome, detail string) *PathResult {
	r := &PathResult{Outcome: outcome, Detail: detail, Decisions: len(ps.trace), Trace: ps.trace,
		Model: ps.snapshotModel(), New: ps.newItems, Violations: ps.violations, Obs: ps.obs,
		Instrs: ps.instrs, Asserts: ps.asserts, AssertQ: ps.assertQ, Hashes: ps.symHashes,
		Inputs: ps.inputs, Funcs: ps.funcs, Unknowns: ps.unknowns}
	for c := range ps.covers {
		r.Covers = append(r.Covers, c)
	}
	sort.Strings(r.Covers)
	r.TokenDep = ps.tokenDepUnder(ps.eval)
	return r
}
