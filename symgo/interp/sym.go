package interp

// Symbolic scalar operations: the symbolic halves of binop/unop/conv/equals.

import (
	"fmt"
	"go/token"
	"go/types"
	"math"

	"symgo/smt"
)

func kindWidth(k types.BasicKind) (w int, signed bool) {
	switch k {
	case types.Int8:
		return 8, true
	case types.Int16:
		return 16, true
	case types.Int32:
		return 32, true
	case types.Int64, types.Int:
		return 64, true
	case types.Uint8:
		return 8, false
	case types.Uint16:
		return 16, false
	case types.Uint32:
		return 32, false
	case types.Uint64, types.Uint, types.Uintptr:
		return 64, false
	}
	panic(fmt.Sprintf("kindWidth: %v", k))
}

func isIntKind(k types.BasicKind) bool {
	switch k {
	case types.Int8, types.Int16, types.Int32, types.Int64, types.Int,
		types.Uint8, types.Uint16, types.Uint32, types.Uint64, types.Uint, types.Uintptr:
		return true
	}
	return false
}

// kindOf returns the basic kind of a concrete scalar value.
func kindOf(x value) (types.BasicKind, bool) {
	switch x := x.(type) {
	case sym:
		return x.k, true
	case bool:
		return types.Bool, true
	case int:
		return types.Int, true
	case int8:
		return types.Int8, true
	case int16:
		return types.Int16, true
	case int32:
		return types.Int32, true
	case int64:
		return types.Int64, true
	case uint:
		return types.Uint, true
	case uint8:
		return types.Uint8, true
	case uint16:
		return types.Uint16, true
	case uint32:
		return types.Uint32, true
	case uint64:
		return types.Uint64, true
	case uintptr:
		return types.Uintptr, true
	case float64:
		return types.Float64, true
	}
	return 0, false
}

// termOf lifts a scalar value (concrete or symbolic) to a term.
func termOf(x value) *smt.Term {
	c := G.ctx
	switch x := x.(type) {
	case sym:
		return x.t
	case bool:
		return c.BoolC(x)
	case float64:
		return c.FPConst(x)
	case float32:
		unsupported("float32 in symbolic expression")
	}
	k, ok := kindOf(x)
	if !ok || !isIntKind(k) {
		panic(fmt.Sprintf("termOf: %T", x))
	}
	w, _ := kindWidth(k)
	return c.Const(smt.BV(w), uint64(asInt64(x)))
}

// concreteOf converts constant bits back to a boxed Go value of kind k.
func concreteOf(k types.BasicKind, bits uint64) value {
	switch k {
	case types.Bool:
		return bits == 1
	case types.Int:
		return int(bits)
	case types.Int8:
		return int8(bits)
	case types.Int16:
		return int16(bits)
	case types.Int32:
		return int32(bits)
	case types.Int64:
		return int64(bits)
	case types.Uint:
		return uint(bits)
	case types.Uint8:
		return uint8(bits)
	case types.Uint16:
		return uint16(bits)
	case types.Uint32:
		return uint32(bits)
	case types.Uint64:
		return uint64(bits)
	case types.Uintptr:
		return uintptr(bits)
	case types.Float64:
		return math.Float64frombits(bits)
	}
	panic(fmt.Sprintf("concreteOf: %v", k))
}

// mkSym boxes a term; constants become concrete values again.
func mkSym(t *smt.Term, k types.BasicKind) value {
	if t.IsConst() {
		return concreteOf(k, t.Val)
	}
	return sym{t, k}
}

func isSym(x value) bool {
	_, ok := x.(sym)
	return ok
}

func symBool(t *smt.Term) value { return mkSym(t, types.Bool) }

// truth converts a bool-like value to a concrete bool, deciding if symbolic.
func truth(x value, site string) bool {
	switch x := x.(type) {
	case bool:
		return x
	case sym:
		return G.decideBool(x.t, site)
	}
	panic(fmt.Sprintf("truth: %T", x))
}

func symBinop(op token.Token, x, y value) value {
	c := G.ctx
	kx, _ := kindOf(x)
	ky, _ := kindOf(y)
	k := kx
	if !isSym(x) && op != token.SHL && op != token.SHR {
		k = ky
	}
	// shifts: operand kinds differ
	if op == token.SHL || op == token.SHR {
		return symShift(op, x, y, kx, ky)
	}
	a, b := termOf(x), termOf(y)
	if k == types.Bool {
		switch op {
		case token.EQL:
			return symBool(c.Eq(a, b))
		case token.NEQ:
			return symBool(c.Not(c.Eq(a, b)))
		case token.AND, token.LAND:
			return symBool(c.And(a, b))
		case token.OR, token.LOR:
			return symBool(c.Or(a, b))
		}
		panic(fmt.Sprintf("symBinop bool %s", op))
	}
	if k == types.Float64 {
		switch op {
		case token.ADD:
			return mkSym(c.App(smt.OFAdd, smt.FP, a, b), k)
		case token.SUB:
			return mkSym(c.App(smt.OFSub, smt.FP, a, b), k)
		case token.MUL:
			return mkSym(c.App(smt.OFMul, smt.FP, a, b), k)
		case token.QUO:
			return mkSym(c.App(smt.OFDiv, smt.FP, a, b), k)
		case token.LSS:
			return symBool(c.App(smt.OFLt, smt.Bool, a, b))
		case token.LEQ:
			return symBool(c.App(smt.OFLe, smt.Bool, a, b))
		case token.GTR:
			return symBool(c.App(smt.OFLt, smt.Bool, b, a))
		case token.GEQ:
			return symBool(c.App(smt.OFLe, smt.Bool, b, a))
		case token.EQL:
			return symBool(c.App(smt.OFEq, smt.Bool, a, b))
		case token.NEQ:
			return symBool(c.Not(c.App(smt.OFEq, smt.Bool, a, b)))
		}
		panic(fmt.Sprintf("symBinop float %s", op))
	}
	w, signed := kindWidth(k)
	s := smt.BV(w)
	if a.Sort != s || b.Sort != s {
		panic(fmt.Sprintf("symBinop: sort mismatch %v %v for kind %v op %s", a.Sort, b.Sort, k, op))
	}
	switch op {
	case token.ADD:
		return mkSym(c.App(smt.OAdd, s, a, b), k)
	case token.SUB:
		return mkSym(c.App(smt.OSub, s, a, b), k)
	case token.MUL:
		return mkSym(c.App(smt.OMul, s, a, b), k)
	case token.QUO, token.REM:
		if !truth(symBool(c.Not(c.Eq(b, c.Const(s, 0)))), "divzero") {
			panic(runtimeError("integer divide by zero"))
		}
		var o smt.Op
		switch {
		case op == token.QUO && signed:
			o = smt.OSDiv
		case op == token.QUO:
			o = smt.OUDiv
		case signed:
			o = smt.OSRem
		default:
			o = smt.OURem
		}
		return mkSym(c.App(o, s, a, b), k)
	case token.AND:
		return mkSym(c.App(smt.OBAnd, s, a, b), k)
	case token.OR:
		return mkSym(c.App(smt.OBOr, s, a, b), k)
	case token.XOR:
		return mkSym(c.App(smt.OBXor, s, a, b), k)
	case token.AND_NOT:
		return mkSym(c.App(smt.OBAnd, s, a, c.App(smt.OBNot, s, b)), k)
	case token.EQL:
		return symBool(c.Eq(a, b))
	case token.NEQ:
		return symBool(c.Not(c.Eq(a, b)))
	case token.LSS:
		if signed {
			return symBool(c.App(smt.OSLt, smt.Bool, a, b))
		}
		return symBool(c.App(smt.OULt, smt.Bool, a, b))
	case token.LEQ:
		if signed {
			return symBool(c.App(smt.OSLe, smt.Bool, a, b))
		}
		return symBool(c.App(smt.OULe, smt.Bool, a, b))
	case token.GTR:
		if signed {
			return symBool(c.App(smt.OSLt, smt.Bool, b, a))
		}
		return symBool(c.App(smt.OULt, smt.Bool, b, a))
	case token.GEQ:
		if signed {
			return symBool(c.App(smt.OSLe, smt.Bool, b, a))
		}
		return symBool(c.App(smt.OULe, smt.Bool, b, a))
	}
	panic(fmt.Sprintf("symBinop: %s", op))
}

type runtimeError string

func (e runtimeError) Error() string { return "runtime error: " + string(e) }
func (e runtimeError) RuntimeError() {}

func symShift(op token.Token, x, y value, kx, ky types.BasicKind) value {
	c := G.ctx
	wx, sx := kindWidth(kx)
	wy, sy := kindWidth(ky)
	a, b := termOf(x), termOf(y)
	if sy {
		if truth(symBool(c.App(smt.OSLt, smt.Bool, b, c.Const(smt.BV(wy), 0))), "negshift") {
			panic(runtimeError("negative shift amount"))
		}
	}
	w := wx
	if wy > w {
		w = wy
	}
	ext := func(t *smt.Term, from int, signed bool) *smt.Term {
		if from == w {
			return t
		}
		if signed {
			return c.SExt(t, w)
		}
		return c.ZExt(t, w)
	}
	bb := ext(b, wy, false)
	var r *smt.Term
	switch {
	case op == token.SHL:
		r = c.App(smt.OShl, smt.BV(w), ext(a, wx, false), bb)
	case sx:
		r = c.App(smt.OAShr, smt.BV(w), ext(a, wx, true), bb)
	default:
		r = c.App(smt.OLShr, smt.BV(w), ext(a, wx, false), bb)
	}
	if w != wx {
		r = c.Extract(r, wx-1, 0)
	}
	return mkSym(r, kx)
}

func symUnop(op token.Token, x sym) value {
	c := G.ctx
	switch op {
	case token.NOT:
		return symBool(c.Not(x.t))
	case token.SUB:
		if x.k == types.Float64 {
			return mkSym(c.App(smt.OFNeg, smt.FP, x.t), x.k)
		}
		return mkSym(c.App(smt.ONeg, x.t.Sort, x.t), x.k)
	case token.XOR:
		return mkSym(c.App(smt.OBNot, x.t.Sort, x.t), x.k)
	}
	panic(fmt.Sprintf("symUnop %s", op))
}

// symConv converts a symbolic scalar to the destination basic kind.
func symConv(dst types.BasicKind, x sym) value {
	c := G.ctx
	if dst == types.UntypedInt {
		dst = types.Int
	}
	if x.k == types.Bool {
		if dst == types.Bool {
			return x
		}
		panic("symConv: bool to non-bool")
	}
	if x.k == types.Float64 {
		if dst == types.Float64 {
			return x
		}
		if dst == types.Float32 {
			unsupported("symbolic float64->float32")
		}
		w, signed := kindWidth(dst)
		// Go: result unspecified when out of range; model as unconstrained fresh value.
		var inRange, conv *smt.Term
		if signed {
			hi := c.FPConst(math.Ldexp(1, w-1))
			var lower *smt.Term
			if w >= 53 {
				lower = c.App(smt.OFLe, smt.Bool, c.FPConst(-math.Ldexp(1, w-1)), x.t)
			} else {
				lower = c.App(smt.OFLt, smt.Bool, c.FPConst(-math.Ldexp(1, w-1)-1), x.t)
			}
			inRange = c.And(lower, c.App(smt.OFLt, smt.Bool, x.t, hi))
			conv = c.App(smt.OFToS, smt.BV(w), x.t)
		} else {
			lo := c.FPConst(-1)
			hi := c.FPConst(math.Ldexp(1, w))
			inRange = c.And(c.App(smt.OFLt, smt.Bool, lo, x.t), c.App(smt.OFLt, smt.Bool, x.t, hi))
			conv = c.App(smt.OFToU, smt.BV(w), x.t)
		}
		fresh := G.newInput("unspec.f2i", smt.BV(w))
		return mkSym(c.Ite(inRange, conv, fresh), dst)
	}
	// integer source
	sw, ssigned := kindWidth(x.k)
	if dst == types.Float64 {
		if ssigned {
			return mkSym(c.App(smt.OSToF, smt.FP, x.t), dst)
		}
		return mkSym(c.App(smt.OUToF, smt.FP, x.t), dst)
	}
	if dst == types.Float32 {
		unsupported("symbolic int->float32")
	}
	if dst == types.String {
		unsupported("symbolic integer -> string conversion")
	}
	dw, _ := kindWidth(dst)
	t := x.t
	switch {
	case dw == sw:
	case dw < sw:
		t = c.Extract(t, dw-1, 0)
	case ssigned:
		t = c.SExt(t, dw)
	default:
		t = c.ZExt(t, dw)
	}
	return mkSym(t, dst)
}

// concretize turns a symbolic integer into a concrete boxed value of its kind via a value decision.
func concretize(x sym, site string) value {
	if x.k == types.Bool {
		return G.decideBool(x.t, site)
	}
	if x.k == types.Float64 {
		unsupported("concretising a symbolic float")
	}
	_, signed := kindWidth(x.k)
	v := G.decideValue(x.t, signed, site)
	return concreteOf(x.k, uint64(v))
}

// hasSym reports whether a (possibly aggregate) value contains a symbolic scalar (shallow through arrays/structs).
func hasSym(x value) bool {
	switch x := x.(type) {
	case sym, symStr:
		return true
	case array:
		for _, e := range x {
			if hasSym(e) {
				return true
			}
		}
	case structure:
		for _, e := range x {
			if hasSym(e) {
				return true
			}
		}
	case iface:
		if x.t != nil {
			return hasSym(x.v)
		}
	}
	return false
}

// equalsV is equals() that yields a term when symbolic scalars are involved.
func equalsV(t types.Type, x, y value) value {
	if !hasSym(x) && !hasSym(y) {
		return equals(t, x, y)
	}
	c := G.ctx
	switch xv := x.(type) {
	case sym:
		return symBinop(token.EQL, x, y)
	case symStr:
		return symStrEq(xv, y)
	case string:
		if ys, ok := y.(symStr); ok {
			return symStrEq(ys, x)
		}
	case array:
		yv := y.(array)
		tElt := t.Underlying().(*types.Array).Elem()
		acc := c.True()
		for i := range xv {
			e := equalsV(tElt, xv[i], yv[i])
			if b, ok := e.(bool); ok {
				if !b {
					return false
				}
				continue
			}
			acc = c.And(acc, e.(sym).t)
		}
		return symBool(acc)
	case structure:
		yv := y.(structure)
		tS := t.Underlying().(*types.Struct)
		acc := c.True()
		for i := 0; i < tS.NumFields(); i++ {
			if f := tS.Field(i); !f.Anonymous() || true {
				e := equalsV(f.Type(), xv[i], yv[i])
				if b, ok := e.(bool); ok {
					if !b {
						return false
					}
					continue
				}
				acc = c.And(acc, e.(sym).t)
			}
		}
		return symBool(acc)
	case iface:
		yv := y.(iface)
		if !sameType(xv.t, yv.t) {
			return false
		}
		if xv.t == nil {
			return true
		}
		return equalsV(xv.t, xv.v, yv.v)
	}
	if _, ok := kindOf(x); ok {
		return symBinop(token.EQL, x, y)
	}
	panic(fmt.Sprintf("equalsV: %T vs %T", x, y))
}

func symStrEq(a symStr, y value) value {
	var b []value
	switch y := y.(type) {
	case symStr:
		b = y
	case string:
		b = make([]value, len(y))
		for i := 0; i < len(y); i++ {
			b[i] = y[i]
		}
	}
	if len(a) != len(b) {
		return false
	}
	return bytesEqTerm(a, b)
}

// bytesEqTerm returns the (possibly symbolic) equality of two equal-length byte vectors.
// Runs of adjacent bytes that are consecutive extracts of the same wider terms (the
// big-endian bytes of an integer) are compared as one wide equality.
func bytesEqTerm(a, b []value) value {
	c := G.ctx
	acc := c.True()
	type side struct {
		base   *smt.Term // nil = constant
		hi, lo int
		cval   uint64 // accumulated constant (for base == nil)
		n      int    // bytes accumulated
	}
	var ra, rb side
	have := false
	flush := func() {
		if !have {
			return
		}
		mk := func(s side) *smt.Term {
			if s.base == nil {
				return c.Const(smt.BV(8*s.n), s.cval)
			}
			return c.Extract(s.base, s.hi, s.lo)
		}
		acc = c.And(acc, c.Eq(mk(ra), mk(rb)))
		have = false
	}
	// describe a byte as (base, hi, lo) extract or constant
	desc := func(v value) (base *smt.Term, hi, lo int, cv uint64, ok bool) {
		switch x := v.(type) {
		case uint8:
			return nil, 0, 0, uint64(x), true
		case sym:
			t := x.t
			if t.Op == smt.OExtract && t.Hi-t.Lo == 7 {
				return t.Args[0], t.Hi, t.Lo, 0, true
			}
			return t, 7, 0, 0, true
		}
		return nil, 0, 0, 0, false
	}
	extend := func(s *side, base *smt.Term, hi, lo int, cv uint64) bool {
		if s.n >= 8 {
			return false
		}
		if s.base == nil && base == nil {
			s.cval = s.cval<<8 | cv
			s.n++
			return true
		}
		if s.base != nil && base == s.base && hi == s.lo-1 {
			s.lo = lo
			s.n++
			return true
		}
		return false
	}
	for i := range a {
		if !isSym(a[i]) && !isSym(b[i]) {
			if a[i].(uint8) != b[i].(uint8) {
				return false
			}
			continue
		}
		ba, ha, la, ca, oka := desc(a[i])
		bb, hb, lb, cb, okb := desc(b[i])
		if !oka || !okb {
			flush()
			acc = c.And(acc, c.Eq(termOf(a[i]), termOf(b[i])))
			continue
		}
		if have {
			sa, sb := ra, rb
			if extend(&sa, ba, ha, la, ca) && extend(&sb, bb, hb, lb, cb) {
				ra, rb = sa, sb
				continue
			}
			flush()
		}
		ra = side{base: ba, hi: ha, lo: la, cval: ca, n: 1}
		rb = side{base: bb, hi: hb, lo: lb, cval: cb, n: 1}
		have = true
	}
	flush()
	if !acc.IsConst() && G != nil {
		G.noteTokenEq(a, b, acc)
	}
	return symBool(acc)
}
