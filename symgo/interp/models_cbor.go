package interp

// CBOR (fxamacker/cbor/v2) as opaque blobs with the round-trip contract (DESIGN §3.2):
// Marshal(v) returns a one-cell []byte holding a deep snapshot of v; Unmarshal(blob,&dst)
// deep-copies it into dst after a static type check; Unmarshal of anything else errors.

import (
	"fmt"
	"go/types"
)

const cborPkg = "github.com/fxamacker/cbor/v2"

// deepCopy copies a value through structs, arrays, slices, pointers and interfaces.
func deepCopy(v value, depth int) value {
	if depth > 64 {
		panic(pathEnd{"engine-error", "deepCopy: too deep"})
	}
	switch x := v.(type) {
	case structure:
		c := make(structure, len(x))
		for i := range x {
			c[i] = deepCopy(x[i], depth+1)
		}
		return c
	case array:
		c := make(array, len(x))
		for i := range x {
			c[i] = deepCopy(x[i], depth+1)
		}
		return c
	case []value:
		if x == nil {
			return x
		}
		c := make([]value, len(x))
		for i := range x {
			c[i] = deepCopy(x[i], depth+1)
		}
		return c
	case *value:
		if x == nil {
			return x
		}
		n := deepCopy(*x, depth+1)
		return &n
	case iface:
		if x.t == nil {
			return x
		}
		return iface{x.t, deepCopy(x.v, depth+1)}
	}
	return v
}

// cborNormalize applies the encoder's observable normalisation: `omitempty` slices that
// are empty decode as nil.
func cborNormalize(t types.Type, v value) value {
	switch tt := t.Underlying().(type) {
	case *types.Struct:
		s := v.(structure)
		for i := 0; i < tt.NumFields(); i++ {
			tag := tt.Tag(i)
			fv := cborNormalize(tt.Field(i).Type(), s[i])
			if sl, ok := fv.([]value); ok && len(sl) == 0 && containsOmitEmpty(tag) {
				fv = []value(nil)
			}
			s[i] = fv
		}
		return s
	case *types.Pointer:
		p := v.(*value)
		if p == nil {
			return v
		}
		*p = cborNormalize(tt.Elem(), *p)
		return p
	case *types.Slice:
		sl := v.([]value)
		if _, isByte := tt.Elem().Underlying().(*types.Basic); isByte {
			return v
		}
		for i := range sl {
			sl[i] = cborNormalize(tt.Elem(), sl[i])
		}
		return sl
	}
	return v
}

func containsOmitEmpty(tag string) bool {
	for i := 0; i+9 <= len(tag); i++ {
		if tag[i:i+9] == "omitempty" {
			return true
		}
	}
	return false
}

func cborMarshal(fr *frame, a []value) value {
	it := a[len(a)-1].(iface)
	if it.t == nil {
		unsupported("cbor.Marshal(nil)")
	}
	t := it.t
	v := it.v
	if pt, ok := t.Underlying().(*types.Pointer); ok {
		p := v.(*value)
		if p == nil {
			unsupported("cbor.Marshal of nil pointer")
		}
		t = pt.Elem()
		v = *p
	}
	snap := cborNormalize(t, deepCopy(v, 0))
	return tuple{[]value{blob{v: snap, t: t}}, iface{}}
}

func cborUnmarshal(fr *frame, data value, dst iface) value {
	bs := data.([]value)
	mkErr := func(msg string) value { return newError(fr, "cbor: "+msg) }
	if len(bs) != 1 {
		return mkErr("cannot decode (not a CBOR blob)")
	}
	b, ok := bs[0].(blob)
	if !ok {
		return mkErr("cannot decode (not a CBOR blob)")
	}
	pt, ok := dst.t.Underlying().(*types.Pointer)
	if !ok {
		return mkErr("Unmarshal(non-pointer)")
	}
	if !types.Identical(pt.Elem(), b.t) {
		return mkErr(fmt.Sprintf("cannot unmarshal %v into %v", b.t, pt.Elem()))
	}
	p := dst.v.(*value)
	store(pt.Elem(), p, deepCopy(b.v, 0))
	return iface{}
}

func init() {
	reg(cborPkg+".Marshal", cborMarshal)
	reg(cborPkg+".Unmarshal", func(fr *frame, a []value) value {
		return cborUnmarshal(fr, a[0], a[1].(iface))
	})
	reg("("+cborPkg+".DecOptions).DecMode", func(fr *frame, a []value) value {
		pkg := I.prog.ImportedPackage(cborPkg)
		dm := pkg.Type("decMode")
		if dm == nil {
			unsupported("cbor.decMode type not found")
		}
		cell := zero(dm.Type())
		return tuple{iface{t: types.NewPointer(dm.Type()), v: &cell}, iface{}}
	})
	reg("(*"+cborPkg+".decMode).Unmarshal", func(fr *frame, a []value) value {
		return cborUnmarshal(fr, a[1], a[2].(iface))
	})
}
