// Copyright 2013 The Go Authors. All rights reserved.
// Use of this source code is governed by a BSD-style
// license that can be found in the LICENSE file.

package interp

// Values
//
// All interpreter values are "boxed" in the empty interface, value.
// The range of possible dynamic types within value are:
//
// - bool
// - numbers (all built-in int/float/complex types are distinguished)
// - string
// - map[value]value --- maps for which  usesBuiltinMap(keyType)
//   *hashmap        --- maps for which !usesBuiltinMap(keyType)
// - chan value
// - []value --- slices
// - iface --- interfaces.
// - structure --- structs.  Fields are ordered and accessed by numeric indices.
// - array --- arrays.
// - *value --- pointers.  Careful: *value is a distinct type from *array etc.
// - *ssa.Function \
//   *ssa.Builtin   } --- functions.  A nil 'func' is always of type *ssa.Function.
//   *closure      /
// - tuple --- as returned by Return, Next, "value,ok" modes, etc.
// - iter --- iterators from 'range' over map or string.
// - bad --- a poison pill for locals that have gone out of scope.
// - rtype -- the interpreter's concrete implementation of reflect.Type
// - **deferred -- the address of a frame's defer stack for a Defer._Stack.
//
// Note that nil is not on this list.
//
// Pay close attention to whether or not the dynamic type is a pointer.
// The compiler cannot help you since value is an empty interface.

import (
	"bytes"
	"fmt"
	"go/types"
	"io"
	"strings"
	"sync"
	"unsafe"

	"golang.org/x/tools/go/ssa"
	"golang.org/x/tools/go/types/typeutil"

	"symgo/smt"
)

// sym is a symbolic scalar: an SMT term tagged with the Go basic kind it stands for.
type sym struct {
	t *smt.Term
	k types.BasicKind
}

// symStr is a Go string of concrete length whose bytes may be symbolic.
type symStr []value

// blob is the one-cell payload of a modelled cbor.Marshal result.
type blob struct {
	v value
	t types.Type
}

type value interface{}

type tuple []value

type array []value

type iface struct {
	t types.Type // never an "untyped" type
	v value
}

type structure []value

// For map, array, *array, slice, string or channel.
type iter interface {
	// next returns a Tuple (key, value, ok).
	// key and value are unaliased, e.g. copies of the sequence element.
	next() tuple
}

type closure struct {
	Fn  *ssa.Function
	Env []value
}

type bad struct{}

type rtype struct {
	t types.Type
}

// Hash functions and equivalence relation:

// hashString computes the FNV hash of s.
func hashString(s string) int {
	var h uint32
	for i := 0; i < len(s); i++ {
		h ^= uint32(s[i])
		h *= 16777619
	}
	return int(h)
}

var (
	mu     sync.Mutex
	hasher = typeutil.MakeHasher()
)

// hashType returns a hash for t such that
// types.Identical(x, y) => hashType(x) == hashType(y).
func hashType(t types.Type) int {
	return int(hasher.Hash(t))
}

// usesBuiltinMap returns true if the built-in hash function and
// equivalence relation for type t are consistent with those of the
// interpreter's representation of type t.  Such types are: all basic
// types (bool, numbers, string), pointers and channels.
//
// usesBuiltinMap returns false for types that require a custom map
// implementation: interfaces, arrays and structs.
//
// Panic ensues if t is an invalid map key type: function, map or slice.
func usesBuiltinMap(t types.Type) bool {
	switch t := t.(type) {
	case *types.Basic, *types.Chan, *types.Pointer:
		return true
	case *types.Named, *types.Alias:
		return usesBuiltinMap(t.Underlying())
	case *types.Interface, *types.Array, *types.Struct:
		return false
	}
	panic(fmt.Sprintf("invalid map key type: %T", t))
}

func (x array) eq(t types.Type, _y interface{}) bool {
	y := _y.(array)
	tElt := t.Underlying().(*types.Array).Elem()
	for i, xi := range x {
		if !equals(tElt, xi, y[i]) {
			return false
		}
	}
	return true
}

func (x array) hash(t types.Type) int {
	h := 0
	tElt := t.Underlying().(*types.Array).Elem()
	for _, xi := range x {
		h += hash(t, tElt, xi)
	}
	return h
}

func (x structure) eq(t types.Type, _y interface{}) bool {
	y := _y.(structure)
	tStruct := t.Underlying().(*types.Struct)
	for i, n := 0, tStruct.NumFields(); i < n; i++ {
		if f := tStruct.Field(i); !f.Anonymous() {
			if !equals(f.Type(), x[i], y[i]) {
				return false
			}
		}
	}
	return true
}

func (x structure) hash(t types.Type) int {
	tStruct := t.Underlying().(*types.Struct)
	h := 0
	for i, n := 0, tStruct.NumFields(); i < n; i++ {
		if f := tStruct.Field(i); !f.Anonymous() {
			h += hash(t, f.Type(), x[i])
		}
	}
	return h
}

// nil-tolerant variant of types.Identical.
func sameType(x, y types.Type) bool {
	if x == nil {
		return y == nil
	}
	return y != nil && types.Identical(x, y)
}

func (x iface) eq(t types.Type, _y interface{}) bool {
	y := _y.(iface)
	return sameType(x.t, y.t) && (x.t == nil || equals(x.t, x.v, y.v))
}

func (x iface) hash(outer types.Type) int {
	return hashType(x.t)*8581 + hash(outer, x.t, x.v)
}

// equals returns true iff x and y are equal according to Go's
// linguistic equivalence relation for type t.
// In a well-typed program, the dynamic types of x and y are
// guaranteed equal.
func equals(t types.Type, x, y value) bool {
	switch x := x.(type) {
	case bool:
		return x == y.(bool)
	case int:
		return x == y.(int)
	case int8:
		return x == y.(int8)
	case int16:
		return x == y.(int16)
	case int32:
		return x == y.(int32)
	case int64:
		return x == y.(int64)
	case uint:
		return x == y.(uint)
	case uint8:
		return x == y.(uint8)
	case uint16:
		return x == y.(uint16)
	case uint32:
		return x == y.(uint32)
	case uint64:
		return x == y.(uint64)
	case uintptr:
		return x == y.(uintptr)
	case float32:
		return x == y.(float32)
	case float64:
		return x == y.(float64)
	case complex64:
		return x == y.(complex64)
	case complex128:
		return x == y.(complex128)
	case string:
		return x == y.(string)
	case *value:
		return x == y.(*value)
	case sym, symStr:
		panic("equals: symbolic operand reached concrete equality")
	case structure:
		return x.eq(t, y)
	case array:
		return x.eq(t, y)
	case iface:
		return x.eq(t, y)
	case *channel:
		return x == y.(*channel)
	case unsafe.Pointer:
		return x == y.(unsafe.Pointer)
	case *ssa.Function:
		if y, ok := y.(*ssa.Function); ok {
			return x == y
		}
		return false
	case *closure:
		if y, ok := y.(*closure); ok {
			return x == y
		}
		return false
	}

	// Since map, func and slice don't support comparison, this
	// case is only reachable if one of x or y is literally nil
	// (handled in eqnil) or via interface{} values.
	panic(fmt.Sprintf("comparing uncomparable type %s", t))
}

// Returns an integer hash of x such that equals(x, y) => hash(x) == hash(y).
// The outer type is used only for the "unhashable" panic message.
func hash(outer, t types.Type, x value) int {
	switch x := x.(type) {
	case bool:
		if x {
			return 1
		}
		return 0
	case int:
		return x
	case int8:
		return int(x)
	case int16:
		return int(x)
	case int32:
		return int(x)
	case int64:
		return int(x)
	case uint:
		return int(x)
	case uint8:
		return int(x)
	case uint16:
		return int(x)
	case uint32:
		return int(x)
	case uint64:
		return int(x)
	case uintptr:
		return int(x)
	case float32:
		return int(x)
	case float64:
		return int(x)
	case complex64:
		return int(real(x))
	case complex128:
		return int(real(x))
	case string:
		return hashString(x)
	case *value:
		return int(uintptr(unsafe.Pointer(x)))
	case *channel:
		return x.id
	case structure:
		return x.hash(t)
	case array:
		return x.hash(t)
	case iface:
		return x.hash(t)
	}
	panic(fmt.Sprintf("unhashable type %v", outer))
}

// reflect.Value struct values don't have a fixed shape, since the
// payload can be a scalar or an aggregate depending on the instance.
// So store (and load) can't simply use recursion over the shape of the
// rhs value, or the lhs, to copy the value; we need the static type
// information.  (We can't make reflect.Value a new basic data type
// because its "structness" is exposed to Go programs.)

// load returns the value of type T in *addr.
func load(T types.Type, addr *value) value {
	switch T := T.Underlying().(type) {
	case *types.Struct:
		v := (*addr).(structure)
		a := make(structure, len(v))
		for i := range a {
			a[i] = load(T.Field(i).Type(), &v[i])
		}
		return a
	case *types.Array:
		v := (*addr).(array)
		a := make(array, len(v))
		for i := range a {
			a[i] = load(T.Elem(), &v[i])
		}
		return a
	default:
		return *addr
	}
}

// store stores value v of type T into *addr.
func store(T types.Type, addr *value, v value) {
	switch T := T.Underlying().(type) {
	case *types.Struct:
		lhs := (*addr).(structure)
		rhs := v.(structure)
		for i := range lhs {
			store(T.Field(i).Type(), &lhs[i], rhs[i])
		}
	case *types.Array:
		lhs := (*addr).(array)
		rhs := v.(array)
		for i := range lhs {
			store(T.Elem(), &lhs[i], rhs[i])
		}
	default:
		*addr = v
	}
}

// Prints in the style of built-in println.
// (More or less; in gc println is actually a compiler intrinsic and
// can distinguish println(1) from println(interface{}(1)).)
func writeValue(buf *bytes.Buffer, v value) {
	switch v := v.(type) {
	case nil, bool, int, int8, int16, int32, int64, uint, uint8, uint16, uint32, uint64, uintptr, float32, float64, complex64, complex128, string:
		fmt.Fprintf(buf, "%v", v)

	case *omap:
		buf.WriteString(v.String())

	case sym:
		fmt.Fprintf(buf, "<sym %d>", v.t.ID)

	case *channel:
		fmt.Fprintf(buf, "chan#%d", v.id)

	case *value:
		if v == nil {
			buf.WriteString("<nil>")
		} else {
			fmt.Fprintf(buf, "%p", v)
		}

	case iface:
		fmt.Fprintf(buf, "(%s, ", v.t)
		writeValue(buf, v.v)
		buf.WriteString(")")

	case structure:
		buf.WriteString("{")
		for i, e := range v {
			if i > 0 {
				buf.WriteString(" ")
			}
			writeValue(buf, e)
		}
		buf.WriteString("}")

	case array:
		buf.WriteString("[")
		for i, e := range v {
			if i > 0 {
				buf.WriteString(" ")
			}
			writeValue(buf, e)
		}
		buf.WriteString("]")

	case []value:
		buf.WriteString("[")
		for i, e := range v {
			if i > 0 {
				buf.WriteString(" ")
			}
			writeValue(buf, e)
		}
		buf.WriteString("]")

	case *ssa.Function, *ssa.Builtin, *closure:
		fmt.Fprintf(buf, "%p", v) // (an address)

	case tuple:
		// Unreachable in well-formed Go programs
		buf.WriteString("(")
		for i, e := range v {
			if i > 0 {
				buf.WriteString(", ")
			}
			writeValue(buf, e)
		}
		buf.WriteString(")")

	default:
		fmt.Fprintf(buf, "<%T>", v)
	}
}

// Implements printing of Go values in the style of built-in println.
func toString(v value) string {
	var b bytes.Buffer
	writeValue(&b, v)
	return b.String()
}

// ------------------------------------------------------------------------
// Iterators

type stringIter struct {
	*strings.Reader
	i int
}

func (it *stringIter) next() tuple {
	okv := make(tuple, 3)
	ch, n, err := it.ReadRune()
	ok := err != io.EOF
	okv[0] = ok
	if ok {
		okv[1] = it.i
		okv[2] = ch
	}
	it.i += n
	return okv
}
