package interp

// Deterministic goroutine scheduler: every interpreted goroutine is a host
// goroutine, exactly one of which runs at a time (baton passing). Blocking
// operations deschedule; in "explore" mode a switch at a scheduling point is an
// n-ary decision of the path (so schedules are enumerated like any other input).

import (
	"fmt"
	"go/token"
	"go/types"
	"runtime"

	"golang.org/x/tools/go/ssa"
)

type killed struct{}

type gthread struct {
	id      int
	wake    chan struct{}
	done    bool
	ready   func() bool // nil = runnable
	what    string      // what it is blocked on (diagnostics)
	vc      vclock
	preempt int
}

type scheduler struct {
	threads      []*gthread
	cur          *gthread
	explore      bool // schedule choices are decisions
	dead         bool
	pending      interface{} // panic payload to deliver to the main goroutine
	highFirst    bool
	preemptBound int
	preemptions  int
	nextChanID   int
	yields       int
	yieldAtLocks bool  // mutex operations are scheduling points (explore mode)
	log          []int // chosen thread id at every scheduling point (explore mode), for native replay
}

var S *scheduler

func newScheduler() *scheduler {
	s := &scheduler{preemptBound: -1, yieldAtLocks: true}
	main := &gthread{id: 0, wake: make(chan struct{}, 1)}
	main.vc = vclock{0: 1}
	s.threads = []*gthread{main}
	s.cur = main
	return s
}

func (s *scheduler) runnable() []*gthread {
	var r []*gthread
	for _, g := range s.threads {
		if g.done {
			continue
		}
		if g.ready == nil || g.ready() {
			r = append(r, g)
		}
	}
	return r
}

// park blocks the calling host goroutine until its gthread is scheduled again.
func (s *scheduler) park(g *gthread) {
	<-g.wake
	if s.dead {
		panic(killed{})
	}
	if g.id == 0 && s.pending != nil {
		p := s.pending
		s.pending = nil
		panic(p)
	}
}

// switchTo hands the baton to g and parks the caller (unless it is g).
func (s *scheduler) switchTo(from, g *gthread) {
	if g == from {
		return
	}
	s.cur = g
	g.wake <- struct{}{}
	if from != nil && !from.done {
		s.park(from)
	}
}

// pick chooses the next goroutine to run among the runnable ones.
func (s *scheduler) pick(from *gthread, r []*gthread, site string, voluntary bool) *gthread {
	if len(r) == 1 {
		return r[0]
	}
	if s.explore {
		// candidates: keep the current thread first (no preemption) when it is runnable
		curRunnable := false
		for _, g := range r {
			if g == from {
				curRunnable = true
			}
		}
		if curRunnable && s.preemptBound >= 0 && s.preemptions >= s.preemptBound {
			return from
		}
		// n-ary decision over thread ids
		ids := make([]int64, len(r))
		for i, g := range r {
			ids[i] = int64(g.id)
		}
		c := chooseAmong(ids, "sched@"+site)
		for _, g := range r {
			if int64(g.id) == c {
				if curRunnable && g != from {
					s.preemptions++
				}
				return g
			}
		}
		panic("pick: chosen thread not runnable")
	}
	if voluntary {
		// fixed schedule: run-to-block; a voluntary yield keeps running the current goroutine
		for _, g := range r {
			if g == from {
				return g
			}
		}
	}
	if s.highFirst {
		return r[len(r)-1]
	}
	return r[0]
}

// block deschedules the current goroutine until ready() holds.
func (s *scheduler) block(ready func() bool, what string) {
	g := s.cur
	if ready() {
		return
	}
	g.ready = ready
	g.what = what
	for {
		r := s.runnable()
		if len(r) == 0 {
			g.ready = nil
			desc := ""
			for _, t := range s.threads {
				if !t.done {
					desc += fmt.Sprintf(" g%d:%s", t.id, t.what)
				}
			}
			panic(pathEnd{"deadlock", "all goroutines are blocked:" + desc})
		}
		n := s.pick(g, r, what, false)
		if s.explore {
			s.log = append(s.log, n.id)
		}
		if n == g {
			break
		}
		s.switchTo(g, n)
		if g.ready() {
			break
		}
	}
	g.ready = nil
	g.what = ""
}

// yield is a scheduling point at which other goroutines may run (explore mode only).
func (s *scheduler) yield(site string) {
	if !s.explore {
		return
	}
	if len(s.threads) <= 1 {
		return
	}
	s.yields++
	g := s.cur
	r := s.runnable()
	if len(r) <= 1 {
		s.log = append(s.log, g.id)
		return
	}
	n := s.pick(g, r, site, true)
	s.log = append(s.log, n.id)
	if n != g {
		s.switchTo(g, n)
	}
}

// spawn starts a new interpreted goroutine.
func spawn(fr *frame, instr *ssa.Go, fn value, args []value) {
	spawnAt(fr, instr.Pos(), fn, args)
}

func spawnAt(fr *frame, pos token.Pos, fn value, args []value) {
	s := S
	g := &gthread{id: len(s.threads), wake: make(chan struct{}, 1)}
	parent := s.cur
	g.vc = parent.vc.copy()
	g.vc[g.id] = 1
	parent.vc[parent.id]++
	s.threads = append(s.threads, g)
	i := fr.i
	go func() {
		defer func() {
			p := recover()
			g.done = true
			switch p.(type) {
			case nil:
			case killed:
				return
			default:
				if _, ok := p.(pathEnd); !ok {
					// an unrecovered target panic in a goroutine crashes the program
					p = goroutinePanic{p}
				}
				if s.dead {
					return
				}
				s.pending = p
				// deliver to main
				main := s.threads[0]
				main.ready = nil
				s.cur = main
				main.wake <- struct{}{}
				return
			}
			if s.dead {
				return
			}
			// normal exit: hand the baton on
			r := s.runnable()
			if len(r) == 0 {
				s.pending = pathEnd{"deadlock", "goroutine exit left all goroutines blocked"}
				main := s.threads[0]
				main.ready = nil
				s.cur = main
				main.wake <- struct{}{}
				return
			}
			n := s.pick(nil, r, "exit", false)
			if s.explore {
				s.log = append(s.log, n.id)
			}
			s.cur = n
			n.wake <- struct{}{}
		}()
		s.park(g)
		rootFr := &frame{i: i, g: g}
		_ = rootFr
		call(i, nil, pos, fn, args)
	}()
	s.yield("go")
}

// goroutinePanic wraps a panic that escaped a non-main goroutine.
type goroutinePanic struct{ p interface{} }

// shutdown kills all parked goroutines at the end of a path.
func (s *scheduler) shutdown() {
	s.dead = true
	for _, g := range s.threads[1:] {
		if !g.done {
			select {
			case g.wake <- struct{}{}:
			default:
			}
		}
	}
	runtime.Gosched()
}

// chooseAmong makes an n-ary decision among the given concrete alternatives
// (encoded as a fresh bounded symbolic integer).
func chooseAmong(alts []int64, site string) int64 {
	if len(alts) == 1 {
		return alts[0]
	}
	c := G.ctx
	x := G.newInput("choice."+site, smtBV(8))
	G.assume(c.App(smtULt, smtBool, x, c.Const(smtBV(8), uint64(len(alts)))))
	i := G.decideValue(x, false, site)
	return alts[i]
}

// ---------------------------------------------------------------- channels

type sendItem struct {
	v     value
	taken bool
	vc    vclock
}

type channel struct {
	id          int
	cap         int
	buf         []sendItem
	sendq       []*sendItem // unbuffered rendezvous
	closed      bool
	recvWaiting int
	closeVC     vclock
}

func newChannel(cap int) *channel {
	S.nextChanID++
	return &channel{id: S.nextChanID, cap: cap}
}

func (c *channel) length() int {
	if c == nil {
		return 0
	}
	return len(c.buf)
}
func (c *channel) capacity() int {
	if c == nil {
		return 0
	}
	return c.cap
}

func chanSend(c *channel, v value) {
	if c == nil {
		S.block(func() bool { return false }, "send on nil chan")
	}
	S.yield("chansend")
	if c.closed {
		panic(targetPanic{iface{I.runtimeErrorString, "send on closed channel"}})
	}
	g := S.cur
	if c.cap > 0 {
		S.block(func() bool { return len(c.buf) < c.cap || c.closed }, "chan send")
		if c.closed {
			panic(targetPanic{iface{I.runtimeErrorString, "send on closed channel"}})
		}
		c.buf = append(c.buf, sendItem{v: v, vc: g.vc.copy()})
		g.vc[g.id]++
		return
	}
	it := &sendItem{v: v, vc: g.vc.copy()}
	g.vc[g.id]++
	c.sendq = append(c.sendq, it)
	S.block(func() bool { return it.taken || c.closed }, "chan send (unbuffered)")
	if !it.taken {
		panic(targetPanic{iface{I.runtimeErrorString, "send on closed channel"}})
	}
}

func (c *channel) canRecv() bool {
	return len(c.buf) > 0 || len(c.sendq) > 0 || c.closed
}

func (c *channel) doRecv() (value, bool) {
	g := S.cur
	if len(c.buf) > 0 {
		it := c.buf[0]
		c.buf = c.buf[1:]
		g.vc.join(it.vc)
		return it.v, true
	}
	if len(c.sendq) > 0 {
		it := c.sendq[0]
		c.sendq = c.sendq[1:]
		it.taken = true
		g.vc.join(it.vc)
		return it.v, true
	}
	if c.closed {
		g.vc.join(c.closeVC)
		return nil, false
	}
	panic("doRecv on empty channel")
}

func chanRecv(c *channel) (value, bool) {
	if c == nil {
		S.block(func() bool { return false }, "recv on nil chan")
	}
	S.yield("chanrecv")
	c.recvWaiting++
	S.block(c.canRecv, "chan recv")
	c.recvWaiting--
	return c.doRecv()
}

func chanClose(c *channel) {
	if c == nil {
		panic(targetPanic{iface{I.runtimeErrorString, "close of nil channel"}})
	}
	if c.closed {
		panic(targetPanic{iface{I.runtimeErrorString, "close of closed channel"}})
	}
	c.closed = true
	c.closeVC = S.cur.vc.copy()
	S.cur.vc[S.cur.id]++
}

func (c *channel) canSend() bool {
	if c.closed {
		return true // will panic
	}
	if c.cap > 0 {
		return len(c.buf) < c.cap
	}
	return c.recvWaiting > 0
}

func doSelect(fr *frame, instr *ssa.Select) value {
	type cs struct {
		ch   *channel
		send bool
		v    value
	}
	var cases []cs
	for _, st := range instr.States {
		c := cs{ch: fr.get(st.Chan).(*channel), send: st.Dir == types.SendOnly}
		if c.send {
			c.v = fr.get(st.Send)
		}
		cases = append(cases, c)
	}
	S.yield("select")
	readyIdx := func() []int64 {
		var r []int64
		for i, c := range cases {
			if c.ch == nil {
				continue
			}
			if c.send && c.ch.canSend() || !c.send && c.ch.canRecv() {
				r = append(r, int64(i))
			}
		}
		return r
	}
	r := readyIdx()
	chosen := -1
	if len(r) == 0 {
		if instr.Blocking {
			for _, c := range cases {
				if c.ch != nil && !c.send {
					c.ch.recvWaiting++
				}
			}
			S.block(func() bool { return len(readyIdx()) > 0 }, "select")
			for _, c := range cases {
				if c.ch != nil && !c.send {
					c.ch.recvWaiting--
				}
			}
			r = readyIdx()
		}
	}
	if len(r) > 0 {
		// Go picks uniformly at random among ready cases; this is a decision.
		if len(r) > 1 {
			chosen = int(chooseAmong(r, "select@"+siteOf(fr, instr)))
		} else {
			chosen = int(r[0])
		}
	}
	res := tuple{chosen, false}
	var recvVal value
	recvOk := false
	if chosen >= 0 {
		c := cases[chosen]
		if c.send {
			if c.ch.closed {
				panic(targetPanic{iface{I.runtimeErrorString, "send on closed channel"}})
			}
			g := S.cur
			it := &sendItem{v: c.v, vc: g.vc.copy()}
			g.vc[g.id]++
			if c.ch.cap > 0 {
				c.ch.buf = append(c.ch.buf, *it)
			} else {
				c.ch.sendq = append(c.ch.sendq, it)
			}
		} else {
			recvVal, recvOk = c.ch.doRecv()
		}
	}
	res[1] = recvOk
	for i, st := range instr.States {
		if st.Dir == types.RecvOnly {
			var v value
			if i == chosen && recvOk {
				v = recvVal
			} else {
				v = zero(st.Chan.Type().Underlying().(*types.Chan).Elem())
			}
			res = append(res, v)
		}
	}
	return res
}

// ---------------------------------------------------------------- vector clocks

type vclock map[int]int

func (v vclock) copy() vclock {
	c := make(vclock, len(v))
	for k, x := range v {
		c[k] = x
	}
	return c
}

func (v vclock) join(o vclock) {
	for k, x := range o {
		if x > v[k] {
			v[k] = x
		}
	}
}

// leq reports whether the event (tid, clk) happens-before-or-equals v.
func (v vclock) covers(tid, clk int) bool { return v[tid] >= clk }
