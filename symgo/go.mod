module symgo

go 1.23

require golang.org/x/tools v0.29.0

require golang.org/x/crypto v0.7.0

require (
	golang.org/x/mod v0.22.0 // indirect
	golang.org/x/sync v0.10.0 // indirect
)
