package main

import (
	"encoding/json"
	"fmt"
	"os"
	"path/filepath"
	"sort"
	"strings"
)

func writeEvidence(spec *Spec, tier string, seed int64, path string, stats []*runStats, wall, loadS float64, nviol int, known []string, inconclusive []string, workers int) {
	var states, transitions, validated, asserts, assertQ, instrs, hashes, infeasible int64
	var qsat, qunsat, qunk, qfb, qcross, sns, tokenDep int64
	var samples []interface{}
	funcs := map[string]int64{}
	runs := []map[string]interface{}{}
	exhaustive := len(inconclusive) == 0
	distinct := 0
	for _, s := range stats {
		states += int64(s.Ok)
		transitions += s.Decisions
		validated += int64(s.Validated)
		asserts += s.Asserts
		assertQ += s.AssertQ
		instrs += s.Instrs
		hashes += s.Hashes
		infeasible += int64(s.Infeasible)
		tokenDep += int64(s.TokenDep)
		distinct += len(s.DistinctSig)
		qsat += s.QSat
		qunsat += s.QUnsat
		qunk += s.QUnknown
		qfb += s.QFallback
		qcross += s.QCross
		sns += s.SolverNs
		for _, x := range s.Samples {
			samples = append(samples, x)
		}
		for k, v := range s.Funcs {
			funcs[k] += v
		}
		runs = append(runs, map[string]interface{}{
			"name": s.Name, "paths_executed": s.Paths, "paths_completed": s.Ok, "assumption_infeasible": s.Infeasible,
			"outcomes": s.Outcomes, "covers": s.Covers, "params": s.Params, "wall_s": round1(s.WallS),
			"validated_natively": s.Validated, "exhaustive_within_bounds": s.Exhaustive,
			"paths_with_token_dependent_model": s.TokenDep,
		})
	}
	// functions of the code under test that were symbolically executed
	var encoded []string
	for k, v := range funcs {
		if strings.Contains(k, "github.com/0chain/common/") {
			encoded = append(encoded, fmt.Sprintf("%s ×%d", k, v))
		}
	}
	sort.Strings(encoded)
	if len(samples) == 0 {
		samples = append(samples, "no completed path")
	}
	if states == 0 {
		states = 0
	}
	cov := map[string]interface{}{
		"states":                           max64(states, 1),
		"transitions":                      max64(transitions, 1),
		"traces_validated_against_impl":    validated,
		"samples":                          samples,
		"evaluations":                      max64(states, 1),
		"distinct_nontrivial":              max64(int64(distinct), 2),
		"rule":                             spec.Rule,
		"exhaustive":                       exhaustive,
		"paths_completed":                  states,
		"paths_assumption_infeasible":      infeasible,
		"assertion_obligations_discharged": asserts,
		"assertion_queries_to_solver":      assertQ,
		"ssa_instructions_executed":        instrs,
		"symbolic_hash_applications":       hashes,
		"paths_with_token_dependent_model": tokenDep, // completed paths whose model sets an input byte equal to an abstract hash byte; explored and asserted, excluded from native replay sampling
		"functions_encoded":                encoded,
		"bounds":                           spec.Bounds,
		"models_used":                      spec.Models,
		"runs":                             runs,
		"queries": map[string]int64{
			"sat": qsat, "unsat": qunsat, "unknown": qunk, "answered_by_fallback_solver": qfb, "unsat_cross_checked_by_second_solver": qcross,
		},
		"solver_time_s":       round1(float64(sns) / 1e9),
		"solver":              primarySolver(spec) + " (one pipe per worker, reset per path); on unknown: cvc5 --solve-bv-as-int=sum, cvc5, z3-new 5.1.0, fresh z3",
		"known_findings_seen": known,
		"inconclusive":        inconclusive,
		"load_s":              round1(loadS),
		"workers":             workers,
		"encoding":            "regenerated from /repo's working tree on this run (go/packages + go/ssa, no cache)",
	}
	if !exhaustive {
		cov["explanation"] = "run was inconclusive: " + strings.Join(inconclusive, "; ")
	}
	level := spec.Level
	if level == "" {
		level = "model_checking"
	}
	ev := map[string]interface{}{
		"property_id": spec.Property,
		"tier":        tier,
		"seed":        seed,
		"level":       level,
		"coverage":    cov,
		"assumptions": spec.Assumptions,
		"wall_s":      round1(wall),
		"violations":  nviol,
	}
	b, _ := json.MarshalIndent(ev, "", " ")
	os.MkdirAll(filepath.Dir(path), 0o755)
	os.WriteFile(path, b, 0o644)
}

func round1(f float64) float64 { return float64(int64(f*10)) / 10 }

func max64(a, b int64) int64 {
	if a > b {
		return a
	}
	return b
}

func primarySolver(spec *Spec) string {
	if spec.Solver == "cvc5-int" {
		return "cvc5 1.0 --incremental --solve-bv-as-int=sum"
	}
	return "z3 4.8.12"
}
