package main

import (
	"encoding/json"
	"fmt"
	"os"
	"runtime/debug"
	"runtime/pprof"
	"strings"
	"time"

	"symgo/interp"
	"symgo/smt"
)

// profileMain: symgo profile <spec> <run-name> <npaths>  (single process, CPU profile to /tmp/symgo.prof)
func profileMain(args []string) int {
	sb, _ := os.ReadFile(args[0])
	var spec Spec
	json.Unmarshal(sb, &spec)
	if spec.Dir == "" {
		spec.Dir = "/verif/harness"
	}
	cfg := interp.LoadConfig{Dir: spec.Dir, Patterns: spec.Patterns, Tags: spec.Tags, InterpPkgs: spec.InterpPkgs,
		Env: []string{"GOFLAGS=-mod=mod", "GOPROXY=off", "GOSUMDB=off", "GOTOOLCHAIN=local"}}
	p, err := interp.Load(cfg)
	if err != nil {
		fmt.Println(err)
		return 2
	}
	debug.SetGCPercent(800)
	proc, _ := smt.StartSolver(spec.Solver, 20000)
	defer proc.Close()
	var run *RunSpec
	for i := range spec.Runs {
		if strings.Contains(spec.Runs[i].Name, args[1]) {
			run = &spec.Runs[i]
			break
		}
	}
	n := 200
	fmt.Sscan(args[2], &n)
	f, _ := os.Create("/tmp/symgo.prof")
	pprof.StartCPUProfile(f)
	defer pprof.StopCPUProfile()
	queue := []interp.WorkItem{{}}
	t0 := time.Now()
	done := 0
	var instrs int64
	pkg := "verifharness/" + strings.TrimPrefix(spec.Patterns[0], "./")
	for len(queue) > 0 && done < n {
		it := queue[len(queue)-1]
		queue = queue[:len(queue)-1]
		res := p.RunPath(&interp.Request{Pkg: pkg, Func: run.Func, Item: it, Params: run.Tiers["quick"].Params}, proc)
		queue = append(queue, res.New...)
		done++
		instrs += res.Instrs
		if res.Outcome != "ok" && res.Outcome != "infeasible" {
			fmt.Println(res.Outcome, res.Detail)
		}
	}
	el := time.Since(t0)
	fmt.Printf("%d paths, %d instrs, %.1f ms/path, %.2f Minstr/s, solver %.1fs\n", done, instrs, float64(el.Milliseconds())/float64(done), float64(instrs)/el.Seconds()/1e6, float64(smt.GStats.SolverNs)/1e9)
	return 0
}
