package main

import (
	"encoding/json"
	"fmt"
	"os"

	"symgo/interp"
)

func main() {
	if len(os.Args) < 2 {
		fmt.Fprintln(os.Stderr, "usage: symgo worker|check ...")
		os.Exit(2)
	}
	switch os.Args[1] {
	case "worker":
		var cfg interp.LoadConfig
		if err := json.Unmarshal([]byte(os.Args[2]), &cfg); err != nil {
			fmt.Fprintln(os.Stderr, "bad config:", err)
			os.Exit(2)
		}
		if err := interp.WorkerMain(cfg, os.Stdin, os.Stdout); err != nil {
			fmt.Fprintln(os.Stderr, "worker:", err)
			os.Exit(2)
		}
	case "profile":
		os.Exit(profileMain(os.Args[2:]))
	case "check":
		os.Exit(checkMain(os.Args[2:]))
	default:
		fmt.Fprintln(os.Stderr, "unknown command", os.Args[1])
		os.Exit(2)
	}
}
