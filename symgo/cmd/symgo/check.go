package main

// Coordinator: `symgo check -spec checks/C18.json -tier quick` explores every run
// of the spec with a pool of worker processes, replays solver models natively,
// writes the evidence file and sets the exit code (0 held / 1 violation / 2 inconclusive).

import (
	"bufio"
	"bytes"
	"encoding/json"
	"flag"
	"fmt"
	"io"
	"math/rand"
	"os"
	"os/exec"
	"path/filepath"
	"runtime"
	"sort"
	"strconv"
	"strings"
	"sync"
	"time"

	"symgo/interp"
)

type OverlaySpec struct {
	File    string `json:"file"`
	Find    string `json:"find"`
	Replace string `json:"replace"`
}

type TierSpec struct {
	Params   map[string]int64 `json:"params"`
	MaxPaths int              `json:"max_paths"`
	Budget   int64            `json:"budget"`
	Skip     bool             `json:"skip"`
	MinPaths int              `json:"min_paths"`
	Validate int              `json:"validate"` // number of passing paths to validate natively (-1 = none)
}

type RunSpec struct {
	Name           string              `json:"name"`
	Pkg            string              `json:"pkg"`
	Func           string              `json:"func"`
	Tiers          map[string]TierSpec `json:"tiers"`
	RequiredCovers []string            `json:"required_covers"`
	NoReplay       bool                `json:"no_replay"` // harness cannot be replayed natively (stated in evidence)
}

type Spec struct {
	Property    string                 `json:"property"`
	Level       string                 `json:"level"`
	Dir         string                 `json:"dir"`
	Patterns    []string               `json:"patterns"`
	Tags        []string               `json:"tags"`
	InterpPkgs  []string               `json:"interp_pkgs"`
	Overlays    []OverlaySpec          `json:"overlays"`
	Runs        []RunSpec              `json:"runs"`
	Assumptions []string               `json:"assumptions"`
	Models      []string               `json:"models_used"`
	Bounds      map[string]interface{} `json:"bounds"`
	Rule        string                 `json:"rule"`
	TimeoutMs   int                    `json:"solver_timeout_ms"`
	Solver      string                 `json:"solver"`
	WallS       map[string]int         `json:"wall_guard_s"`
}

type KnownFinding struct {
	ID           string `json:"id"`
	Property     string `json:"property"`
	Label        string `json:"label"`
	Kind         string `json:"kind"` // assert | panic | race | deadlock
	Region       string `json:"region,omitempty"`
	SiteContains string `json:"site_contains,omitempty"`
	MsgContains  string `json:"msg_contains,omitempty"`
	Text         string `json:"text"`
}

type KnownFile struct {
	Findings []KnownFinding `json:"findings"`
	Fixed    []string       `json:"fixed"`
}

type worker struct {
	cmd *exec.Cmd
	in  io.WriteCloser
	out *bufio.Reader
}

func startWorker(cfg interp.LoadConfig) (*worker, error) {
	b, _ := json.Marshal(cfg)
	exe, _ := os.Executable()
	cmd := exec.Command(exe, "worker", string(b))
	cmd.Stderr = os.Stderr
	in, err := cmd.StdinPipe()
	if err != nil {
		return nil, err
	}
	outp, err := cmd.StdoutPipe()
	if err != nil {
		return nil, err
	}
	if err := cmd.Start(); err != nil {
		return nil, err
	}
	w := &worker{cmd: cmd, in: in, out: bufio.NewReaderSize(outp, 1<<20)}
	line, err := w.out.ReadBytes('\n')
	if err != nil || !bytes.Contains(line, []byte("ready")) {
		cmd.Process.Kill()
		return nil, fmt.Errorf("worker failed to start: %v %s", err, line)
	}
	return w, nil
}

func (w *worker) do(req *interp.Request) (*interp.PathResult, error) {
	b, _ := json.Marshal(req)
	b = append(b, '\n')
	if _, err := w.in.Write(b); err != nil {
		return nil, err
	}
	line, err := w.out.ReadBytes('\n')
	if err != nil {
		return nil, err
	}
	var resp interp.Response
	if err := json.Unmarshal(line, &resp); err != nil {
		return nil, err
	}
	return resp.Result, nil
}

func (w *worker) stop() {
	w.in.Close()
	done := make(chan struct{})
	go func() { w.cmd.Wait(); close(done) }()
	select {
	case <-done:
	case <-time.After(3 * time.Second):
		w.cmd.Process.Kill()
	}
}

type violGroup struct {
	Sched  []int
	V      interp.Violation
	Run    string
	Func   string
	Pkg    string
	Count  int
	Params map[string]int64
}

type runStats struct {
	Name                                                string
	Paths                                               int
	Ok                                                  int
	Infeasible                                          int
	Decisions                                           int64
	Instrs                                              int64
	Asserts                                             int64
	AssertQ                                             int64
	Covers                                              map[string]int
	Outcomes                                            map[string]int
	Samples                                             []map[string]interface{}
	Validated                                           int
	ValidateMismatch                                    int
	Exhaustive                                          bool
	Funcs                                               map[string]int64
	Hashes                                              int64
	Unknowns                                            int
	QSat, QUnsat, QUnknown, QFallback, QCross, SolverNs int64
	WallS                                               float64
	Params                                              map[string]int64
	inconclusive                                        []string
	passing                                             []passRec
	TokenDep                                            int // ok paths whose model fixes input bytes to abstract hash bytes (not replayable)
	DistinctSig                                         map[string]bool
}

type passRec struct {
	Model map[string]uint64
	Obs   []interp.Observation
	Sched []int
}

func envInt(name string, def int) int {
	if v := os.Getenv(name); v != "" {
		if n, err := strconv.Atoi(v); err == nil {
			return n
		}
	}
	return def
}

func checkMain(args []string) int {
	fs := flag.NewFlagSet("check", flag.ExitOnError)
	specPath := fs.String("spec", "", "check spec json")
	tier := fs.String("tier", "quick", "quick|thorough")
	evidence := fs.String("evidence", "", "evidence file to write")
	jobs := fs.Int("j", envInt("VERIF_JOBS", runtime.NumCPU()), "workers")
	knownPath := fs.String("known", "/verif/known_findings.json", "known findings file")
	replayDir := fs.String("replays", "/verif/evidence/replays", "where to write replay files")
	only := fs.String("only", "", "only runs whose name contains this")
	verbose := fs.Bool("v", false, "verbose")
	replayFile := fs.String("replay", "", "replay a violation file natively and exit")
	fs.Parse(args)
	if t := os.Getenv("VERIF_TIER"); t != "" && (t == "quick" || t == "thorough") {
		// explicit flag wins; env only if flag left at default and env set
		_ = t
	}
	seed := int64(envInt("VERIF_SEED", 1))
	t0 := time.Now()

	sb, err := os.ReadFile(*specPath)
	if err != nil {
		fmt.Fprintln(os.Stderr, err)
		return 2
	}
	var spec Spec
	if err := json.Unmarshal(sb, &spec); err != nil {
		fmt.Fprintln(os.Stderr, "spec:", err)
		return 2
	}
	if spec.Dir == "" {
		spec.Dir = "/verif/harness"
	}
	if *evidence == "" {
		*evidence = "/verif/evidence/" + spec.Property + ".json"
	}
	var known KnownFile
	if kb, err := os.ReadFile(*knownPath); err == nil {
		if err := json.Unmarshal(kb, &known); err != nil {
			fmt.Fprintln(os.Stderr, "known findings:", err)
			return 2
		}
	}

	// overlays: produce patched copies from the current files (checked single substitution)
	tmp, err := os.MkdirTemp("", "symgo-ov-")
	if err != nil {
		fmt.Fprintln(os.Stderr, err)
		return 2
	}
	defer os.RemoveAll(tmp)
	overlay := map[string]string{}
	for i, ov := range spec.Overlays {
		src, err := os.ReadFile(ov.File)
		if err != nil {
			fmt.Fprintln(os.Stderr, "overlay:", err)
			return 2
		}
		if strings.Count(string(src), ov.Find) != 1 {
			fmt.Printf("INCONCLUSIVE property=%s overlay anchor %q not found exactly once in %s\n", spec.Property, ov.Find, ov.File)
			return 2
		}
		dst := filepath.Join(tmp, fmt.Sprintf("ov%d.go", i))
		os.WriteFile(dst, []byte(strings.Replace(string(src), ov.Find, ov.Replace, 1)), 0o644)
		overlay[ov.File] = dst
	}

	if *replayFile != "" {
		return replayOnly(&spec, *replayFile, overlay)
	}

	cfg := interp.LoadConfig{Dir: spec.Dir, Patterns: spec.Patterns, Tags: spec.Tags, Overlay: overlay,
		InterpPkgs: spec.InterpPkgs, Solver: spec.Solver, Env: []string{"GOFLAGS=-mod=mod", "GOPROXY=off", "GOSUMDB=off", "GOTOOLCHAIN=local"}}

	// start workers
	nw := *jobs
	if nw < 1 {
		nw = 1
	}
	workers := make([]*worker, nw)
	var wg sync.WaitGroup
	var startErr error
	var mu sync.Mutex
	for i := range workers {
		wg.Add(1)
		go func(i int) {
			defer wg.Done()
			w, err := startWorker(cfg)
			mu.Lock()
			defer mu.Unlock()
			if err != nil {
				startErr = err
				return
			}
			workers[i] = w
		}(i)
	}
	wg.Wait()
	defer func() {
		for _, w := range workers {
			if w != nil {
				w.stop()
			}
		}
	}()
	if startErr != nil {
		fmt.Printf("INCONCLUSIVE property=%s worker start failed: %v\n", spec.Property, startErr)
		return 2
	}
	loadS := time.Since(t0).Seconds()

	rng := rand.New(rand.NewSource(seed))
	var allStats []*runStats
	groups := map[string]*violGroup{}
	var groupOrder []string
	inconclusive := []string{}
	wallGuard := time.Duration(spec.WallS[*tier]) * time.Second
	if wallGuard == 0 {
		if *tier == "quick" {
			wallGuard = 20 * time.Minute
		} else {
			wallGuard = 3 * time.Hour
		}
	}
	deadline := t0.Add(wallGuard)
	raceSeen := map[string]*violGroup{}
	type valJob struct {
		st   *runStats
		pkg  string
		rep  *Replay
		want string
	}
	var valJobs []valJob

	for _, run := range spec.Runs {
		ts, ok := run.Tiers[*tier]
		if !ok || ts.Skip {
			continue
		}
		if run.Name == "" {
			run.Name = run.Func
		}
		if *only != "" && !strings.Contains(run.Name, *only) {
			continue
		}
		if run.Pkg == "" {
			run.Pkg = "verifharness/" + strings.TrimPrefix(spec.Patterns[0], "./")
		}
		st := &runStats{Name: run.Name, Covers: map[string]int{}, Outcomes: map[string]int{}, Funcs: map[string]int64{}, Params: ts.Params, DistinctSig: map[string]bool{}}
		allStats = append(allStats, st)
		rt0 := time.Now()
		maxPaths := ts.MaxPaths
		if maxPaths == 0 {
			maxPaths = 2_000_000
		}

		// exploration
		type job struct {
			item interp.WorkItem
		}
		queue := []interp.WorkItem{{}}
		var qmu sync.Mutex
		cond := sync.NewCond(&qmu)
		active := 0
		stop := false
		nextID := 0
		var wg2 sync.WaitGroup
		for _, w := range workers {
			wg2.Add(1)
			go func(w *worker) {
				defer wg2.Done()
				for {
					qmu.Lock()
					for len(queue) == 0 && active > 0 && !stop {
						cond.Wait()
					}
					if stop || (len(queue) == 0 && active == 0) {
						qmu.Unlock()
						cond.Broadcast()
						return
					}
					// DFS order; seed-dependent pick among the last few
					idx := len(queue) - 1
					if len(queue) > 1 && seed != 1 {
						k := 4
						if len(queue) < k {
							k = len(queue)
						}
						idx = len(queue) - 1 - rng.Intn(k)
					}
					item := queue[idx]
					queue = append(queue[:idx], queue[idx+1:]...)
					active++
					nextID++
					id := nextID
					qmu.Unlock()

					req := &interp.Request{ID: id, Pkg: run.Pkg, Func: run.Func, Item: item, Params: ts.Params,
						Budget: ts.Budget, TimeoutMs: spec.TimeoutMs, CrossCheck: *tier == "thorough"}
					res, err := w.do(req)

					qmu.Lock()
					active--
					if err != nil {
						st.inconclusive = append(st.inconclusive, "worker died: "+err.Error())
						stop = true
						qmu.Unlock()
						cond.Broadcast()
						return
					}
					st.Paths++
					st.Outcomes[res.Outcome]++
					st.Decisions += int64(res.Decisions)
					st.Instrs += res.Instrs
					st.Asserts += int64(res.Asserts)
					st.AssertQ += int64(res.AssertQ)
					st.Hashes += int64(res.Hashes)
					st.Unknowns += res.Unknowns
					st.QSat += res.QSat
					st.QUnsat += res.QUnsat
					st.QUnknown += res.QUnknown
					st.QFallback += res.QFallback
					st.QCross += res.QCross
					st.SolverNs += res.SolverNs
					for k, v := range res.Funcs {
						st.Funcs[k] += v
					}
					for _, c := range res.Covers {
						st.Covers[c]++
					}
					switch res.Outcome {
					case "ok":
						st.Ok++
						sig := traceSig(res.Trace)
						st.DistinctSig[sig] = true
						if res.TokenDep {
							st.TokenDep++
							if *verbose {
								fmt.Fprintf(os.Stderr, "token-dependent model (not replayed): %v obs=%s\n", res.Model, obsText(res.Obs))
							}
						}
						if len(res.Violations) == 0 && !res.TokenDep && len(st.passing) < 4096 {
							st.passing = append(st.passing, passRec{res.Model, res.Obs, res.Sched})
						}
						if len(st.Samples) < 3 {
							st.Samples = append(st.Samples, map[string]interface{}{
								"run": run.Name, "decisions": traceText(res.Trace), "model": res.Model, "observations": res.Obs, "violations": len(res.Violations)})
						}
					case "infeasible":
						st.Infeasible++
					case "deadlock":
						// a deadlock is a violation of liveness (reported under the run's first label)
						res.Violations = append(res.Violations, interp.Violation{Label: spec.Property + ".deadlock", Kind: "deadlock", Site: "", Msg: res.Detail, Model: res.Model})
					default:
						st.inconclusive = append(st.inconclusive, fmt.Sprintf("%s: %s (decisions=%s)", res.Outcome, firstLine(res.Detail, 600), traceText(res.Trace)))
					}
					if res.Unknowns > 0 {
						st.inconclusive = append(st.inconclusive, "solver returned unknown on a feasibility query")
					}
					for _, r := range res.Races {
						res.Violations = append(res.Violations, interp.Violation{Label: spec.Property + ".race", Kind: "race", Site: r, Msg: "data race (happens-before): " + r, Model: res.Model})
					}
					for _, v := range res.Violations {
						key := run.Name + "|" + v.Label + "|" + v.Kind + "|" + v.Site + "|" + strings.Join(v.Known, ",")
						if v.Kind == "panic" {
							key = run.Name + "|" + v.Label + "|" + v.Kind + "|" + v.Site + "|" + stripDigits(firstLine(v.Msg, 80))
						}
						g := groups[key]
						if g == nil {
							g = &violGroup{V: v, Run: run.Name, Func: run.Func, Pkg: run.Pkg, Params: ts.Params, Sched: res.Sched}
							groups[key] = g
							groupOrder = append(groupOrder, key)
							if v.Kind == "race" {
								raceSeen[key] = g
							}
						}
						if g.V.TokenDep && !v.TokenDep {
							// prefer a representative whose model carries over to the real SHA3
							g.V, g.Params, g.Sched = v, ts.Params, res.Sched
						}
						g.Count++
					}
					queue = append(queue, res.New...)
					if st.Paths >= maxPaths || time.Now().After(deadline) {
						if len(queue) > 0 || active > 0 {
							st.inconclusive = append(st.inconclusive, fmt.Sprintf("bound exceeded: %d paths explored, %d still queued (max_paths/wall guard)", st.Paths, len(queue)))
						}
						stop = true
					}
					if len(st.inconclusive) > 20 {
						stop = true
					}
					qmu.Unlock()
					cond.Broadcast()
				}
			}(w)
		}
		wg2.Wait()
		st.Exhaustive = len(st.inconclusive) == 0
		st.WallS = time.Since(rt0).Seconds()
		// vacuity
		for _, c := range run.RequiredCovers {
			if st.Covers[c] == 0 {
				st.inconclusive = append(st.inconclusive, "required cover not reached: "+c)
			}
		}
		if st.Ok == 0 {
			st.inconclusive = append(st.inconclusive, "no feasible path completed")
		}
		if ts.MinPaths > 0 && st.Ok < ts.MinPaths {
			st.inconclusive = append(st.inconclusive, fmt.Sprintf("only %d completed paths, minimum %d", st.Ok, ts.MinPaths))
		}
		for _, s := range st.inconclusive {
			inconclusive = append(inconclusive, run.Name+": "+s)
		}
		if *verbose {
			fmt.Fprintf(os.Stderr, "run %s: paths=%d ok=%d infeasible=%d outcomes=%v covers=%v wall=%.1fs\n", run.Name, st.Paths, st.Ok, st.Infeasible, st.Outcomes, st.Covers, st.WallS)
		}

		// differential validation of passing paths is batched after all runs (one native build)
		nval := ts.Validate
		if nval == 0 {
			if *tier == "quick" {
				nval = 8
			} else {
				nval = 32
			}
		}
		if nval > 0 && !run.NoReplay && len(st.passing) > 0 {
			idxs := rng.Perm(len(st.passing))
			if len(idxs) > nval {
				idxs = idxs[:nval]
			}
			for _, i := range idxs {
				valJobs = append(valJobs, valJob{st: st, pkg: run.Pkg, rep: &Replay{Pkg: run.Pkg, Func: run.Func, Inputs: st.passing[i].Model, Params: ts.Params, Sched: st.passing[i].Sched}, want: obsText(st.passing[i].Obs)})
			}
		}
	}

	// native validation: one go test per harness package
	byPkg := map[string][]int{}
	for i, j := range valJobs {
		byPkg[j.pkg] = append(byPkg[j.pkg], i)
	}
	for pkg, ids := range byPkg {
		var reps []*Replay
		for _, i := range ids {
			reps = append(reps, valJobs[i].rep)
		}
		outs, err := nativeReplay(&spec, pkg, reps, overlay)
		if err != nil {
			inconclusive = append(inconclusive, "native validation failed to run: "+err.Error())
			continue
		}
		for k, i := range ids {
			o := outs[k]
			j := valJobs[i]
			got := strings.Join(o.Obs, "\n")
			if o.Crash != "" || o.Infeasible || len(o.Failed) > 0 || len(o.Panics) > 0 || j.want != got {
				j.st.ValidateMismatch++
				inconclusive = append(inconclusive, fmt.Sprintf("%s: ENGINE-MISMATCH native replay of a passing path differs: crash=%q infeasible=%v failed=%v panics=%v\nwant obs:\n%s\ngot obs:\n%s\nmodel=%v", j.st.Name, o.Crash, o.Infeasible, o.Failed, o.Panics, j.want, got, j.rep.Inputs))
			} else {
				j.st.Validated++
			}
		}
	}

	// violations: native replay, known-finding matching
	exit := 0
	os.MkdirAll(*replayDir, 0o755)
	var violLines, knownLines []string
	nviol := 0
	knownSeen := map[string]bool{}
	sort.Strings(groupOrder)
	for gi, key := range groupOrder {
		g := groups[key]
		rp := &Replay{Pkg: g.Pkg, Func: g.Func, Inputs: g.V.Model, Params: g.Params, Expect: g.V.Label, Sched: g.Sched}
		path := filepath.Join(*replayDir, fmt.Sprintf("%s-%s-%d.json", spec.Property, *tier, gi))
		kf := matchKnown(&known, spec.Property, g)
		confirmed := false
		detail := ""
		noReplay := false
		for _, r := range spec.Runs {
			if (r.Name == g.Run || r.Func == g.Run) && r.NoReplay {
				noReplay = true
			}
		}
		if g.V.Kind == "race" {
			// a happens-before race is confirmed natively by the Go race detector on
			// free-running repetitions of the same harness inputs (no forced schedule)
			rr := *rp
			rr.Sched = nil
			ok, out := nativeRace(&spec, g.Pkg, &rr, overlay, raceLine(g.V.Site))
			confirmed = ok
			detail = "go test -race: " + out
		} else if noReplay {
			// passing paths of this run cannot be replayed natively (a forced schedule would park a
			// goroutine inside a real mutex); a violating schedule is still tried, and reported either way
			confirmed = true
			detail = "not natively replayable (see level_note)"
			replayTimeout = "90s"
			os.Setenv("VERIF_REPEAT", "5")
			outs, err := nativeReplay(&spec, g.Pkg, []*Replay{rp}, overlay)
			os.Unsetenv("VERIF_REPEAT")
			replayTimeout = "20m"
			if err == nil {
				o := outs[0]
				detail = fmt.Sprintf("native attempt under the forced schedule: failed=%v panics=%v crash=%q", o.Failed, o.Panics, o.Crash)
			} else {
				detail = "native attempt under the forced schedule did not finish (schedule not enforceable around a real mutex): " + firstLine(err.Error(), 100)
			}
		} else {
			os.Setenv("VERIF_REPEAT", "25") // code that runs goroutines natively may need several tries
			outs, err := nativeReplay(&spec, g.Pkg, []*Replay{rp}, overlay)
			os.Unsetenv("VERIF_REPEAT")
			if err != nil {
				detail = "native replay failed to run: " + err.Error()
			} else {
				o := outs[0]
				switch g.V.Kind {
				case "assert":
					for _, f := range o.Failed {
						if f == g.V.Label {
							confirmed = true
						}
					}
				case "panic":
					for _, p := range o.Panics {
						if strings.HasPrefix(p, g.V.Label+":") {
							confirmed = true
						}
					}
				default:
					confirmed = true // deadlock/race: schedule-dependent, confirmed by dedicated replays
				}
				detail = fmt.Sprintf("native: failed=%v panics=%v crash=%q infeasible=%v", o.Failed, o.Panics, o.Crash, o.Infeasible)
			}
		}
		rb, _ := json.MarshalIndent(map[string]interface{}{"replay": rp, "violation": g.V, "paths": g.Count, "native": detail, "run": g.Run}, "", " ")
		if kf != nil && confirmed {
			if !knownSeen[kf.ID] {
				knownSeen[kf.ID] = true
				knownLines = append(knownLines, fmt.Sprintf("KNOWN-FINDING: property=%s %s [%s] %s", spec.Property, kf.ID, g.V.Label, kf.Text))
			}
			continue
		}
		os.WriteFile(path, rb, 0o644)
		if !confirmed {
			inconclusive = append(inconclusive, fmt.Sprintf("ENGINE-MISMATCH: %s %s@%s msg=%q not reproduced natively (%s) replay=%s", g.V.Label, g.V.Kind, g.V.Site, firstLine(g.V.Msg, 120), detail, path))
			continue
		}
		nviol++
		violLines = append(violLines, fmt.Sprintf("VIOLATION property=%s replay=%s label=%s kind=%s site=%s paths=%d msg=%q", spec.Property, path, g.V.Label, g.V.Kind, g.V.Site, g.Count, firstLine(g.V.Msg, 160)))
	}
	for _, l := range knownLines {
		fmt.Println(l)
	}
	for _, l := range violLines {
		fmt.Println(l)
	}
	if nviol > 0 {
		exit = 1
	}
	if len(inconclusive) > 0 && exit == 0 {
		exit = 2
	}
	for i, s := range inconclusive {
		if i < 12 {
			fmt.Printf("INCONCLUSIVE property=%s %s\n", spec.Property, s)
		}
	}

	writeEvidence(&spec, *tier, seed, *evidence, allStats, time.Since(t0).Seconds(), loadS, nviol, knownLines, inconclusive, nw)
	if exit == 0 {
		tot := 0
		for _, s := range allStats {
			tot += s.Ok
		}
		fmt.Printf("OK property=%s tier=%s paths=%d wall=%.1fs\n", spec.Property, *tier, tot, time.Since(t0).Seconds())
	}
	return exit
}

func stripDigits(s string) string {
	return strings.Map(func(r rune) rune {
		if r >= '0' && r <= '9' {
			return -1
		}
		return r
	}, s)
}

func firstLine(s string, n int) string {
	if i := strings.IndexByte(s, '\n'); i >= 0 && n < 400 {
		s = s[:i]
	}
	if len(s) > n {
		s = s[:n]
	}
	return s
}

func traceText(tr []interp.Decision) string {
	var sb strings.Builder
	for i, d := range tr {
		if i > 0 {
			sb.WriteByte(' ')
		}
		if d.Kind == interp.DBool {
			fmt.Fprintf(&sb, "%s=%d", d.Site, d.Taken)
		} else {
			fmt.Fprintf(&sb, "%s:=%d", d.Site, d.Taken)
		}
		if sb.Len() > 1500 {
			sb.WriteString(" …")
			break
		}
	}
	return sb.String()
}

func traceSig(tr []interp.Decision) string {
	var sb strings.Builder
	for _, d := range tr {
		fmt.Fprintf(&sb, "%d,", d.Taken)
	}
	return sb.String()
}

func obsText(obs []interp.Observation) string {
	var l []string
	for _, o := range obs {
		l = append(l, o.Label+"="+o.Val)
	}
	return strings.Join(l, "\n")
}

func matchKnown(k *KnownFile, prop string, g *violGroup) *KnownFinding {
	for i := range k.Findings {
		f := &k.Findings[i]
		if f.Property != prop || (f.Label != "" && f.Label != g.V.Label) {
			continue
		}
		if f.Kind != "" && f.Kind != g.V.Kind {
			continue
		}
		if f.Region != "" {
			ok := false
			for _, id := range g.V.Known {
				if id == f.Region {
					ok = true
				}
			}
			if !ok {
				continue
			}
		} else if len(g.V.Known) > 0 {
			continue
		}
		if f.SiteContains != "" && !strings.Contains(g.V.Site, f.SiteContains) {
			continue
		}
		if f.MsgContains != "" && !strings.Contains(g.V.Msg, f.MsgContains) {
			continue
		}
		if f.Region == "" && f.SiteContains == "" && f.MsgContains == "" {
			continue // a finding must identify a specific region or site
		}
		return f
	}
	return nil
}

// ---- native replay

type Replay struct {
	Pkg    string            `json:"pkg"`
	Func   string            `json:"func"`
	Inputs map[string]uint64 `json:"inputs"`
	Params map[string]int64  `json:"params"`
	Expect string            `json:"expect,omitempty"`
	Sched  []int             `json:"sched,omitempty"`
}

type Outcome struct {
	Failed     []string `json:"failed"`
	Panics     []string `json:"panics"`
	Obs        []string `json:"obs"`
	Infeasible bool     `json:"infeasible"`
	Crash      string   `json:"crash"`
	Covers     []string `json:"covers"`
}

var replayTimeout = "20m"

func nativeReplay(spec *Spec, pkg string, reps []*Replay, overlay map[string]string) ([]*Outcome, error) {
	dir, err := os.MkdirTemp("", "symgo-replay-")
	if err != nil {
		return nil, err
	}
	defer os.RemoveAll(dir)
	in := filepath.Join(dir, "in.json")
	out := filepath.Join(dir, "out.json")
	b, _ := json.Marshal(map[string]interface{}{"replays": reps})
	os.WriteFile(in, b, 0o644)
	rel := "./" + strings.TrimPrefix(pkg, "verifharness/")
	args := []string{"test", "-vet=off", "-count=1", "-run", "^TestReplay$", "-timeout", replayTimeout}
	if len(spec.Tags) > 0 {
		args = append(args, "-tags="+strings.Join(spec.Tags, ","))
	}
	if len(overlay) > 0 {
		ovf := filepath.Join(dir, "overlay.json")
		ob, _ := json.Marshal(map[string]interface{}{"Replace": overlay})
		os.WriteFile(ovf, ob, 0o644)
		args = append(args, "-overlay", ovf)
	}
	args = append(args, rel)
	cmd := exec.Command("go", args...)
	cmd.Dir = spec.Dir
	cmd.Env = append(os.Environ(), "GOFLAGS=-mod=mod", "GOPROXY=off", "GOSUMDB=off", "GOTOOLCHAIN=local",
		"VERIF_REPLAY="+in, "VERIF_REPLAY_OUT="+out)
	co, err := cmd.CombinedOutput()
	ob, rerr := os.ReadFile(out)
	if rerr != nil {
		return nil, fmt.Errorf("go test: %v\n%s", err, tail(string(co), 2000))
	}
	var outs []*Outcome
	if err := json.Unmarshal(ob, &outs); err != nil {
		return nil, err
	}
	if len(outs) != len(reps) {
		return nil, fmt.Errorf("replay returned %d outcomes for %d replays", len(outs), len(reps))
	}
	return outs, nil
}

// raceLine extracts the first "file.go:line" of a race site "f.go:L:C(kind) <-> g.go:L:C(kind)".
func raceLine(site string) string {
	p := strings.SplitN(site, "(", 2)[0]
	parts := strings.Split(p, ":")
	if len(parts) >= 2 {
		return parts[0] + ":" + parts[1]
	}
	return p
}

// nativeRace runs the harness natively under the Go race detector, free-running.
func nativeRace(spec *Spec, pkg string, rep *Replay, overlay map[string]string, line string) (bool, string) {
	dir, err := os.MkdirTemp("", "symgo-race-")
	if err != nil {
		return false, err.Error()
	}
	defer os.RemoveAll(dir)
	in := filepath.Join(dir, "in.json")
	b, _ := json.Marshal(map[string]interface{}{"replays": []*Replay{rep}})
	os.WriteFile(in, b, 0o644)
	rel := "./" + strings.TrimPrefix(pkg, "verifharness/")
	args := []string{"test", "-race", "-vet=off", "-count=1", "-run", "^TestReplay$", "-timeout", replayTimeout}
	if len(spec.Tags) > 0 {
		args = append(args, "-tags="+strings.Join(spec.Tags, ","))
	}
	if len(overlay) > 0 {
		ovf := filepath.Join(dir, "overlay.json")
		ob, _ := json.Marshal(map[string]interface{}{"Replace": overlay})
		os.WriteFile(ovf, ob, 0o644)
		args = append(args, "-overlay", ovf)
	}
	args = append(args, rel)
	cmd := exec.Command("go", args...)
	cmd.Dir = spec.Dir
	cmd.Env = append(os.Environ(), "GOFLAGS=-mod=mod", "GOPROXY=off", "GOSUMDB=off", "GOTOOLCHAIN=local",
		"VERIF_REPLAY="+in, "VERIF_REPLAY_OUT="+filepath.Join(dir, "out.json"), "VERIF_REPEAT=300")
	co, _ := cmd.CombinedOutput()
	out := string(co)
	if strings.Contains(out, "DATA RACE") && strings.Contains(out, line) {
		return true, "DATA RACE reported at " + line
	}
	if strings.Contains(out, "DATA RACE") {
		return false, "DATA RACE reported, but not at " + line
	}
	return false, "no race reported in 300 free-running repetitions: " + tail(out, 300)
}

func tail(s string, n int) string {
	if len(s) > n {
		return s[len(s)-n:]
	}
	return s
}

func replayOnly(spec *Spec, file string, overlay map[string]string) int {
	b, err := os.ReadFile(file)
	if err != nil {
		fmt.Fprintln(os.Stderr, err)
		return 2
	}
	var rec struct {
		Replay *Replay `json:"replay"`
	}
	if err := json.Unmarshal(b, &rec); err != nil || rec.Replay == nil {
		fmt.Fprintln(os.Stderr, "bad replay file")
		return 2
	}
	outs, err := nativeReplay(spec, rec.Replay.Pkg, []*Replay{rec.Replay}, overlay)
	if err != nil {
		fmt.Fprintln(os.Stderr, err)
		return 2
	}
	ob, _ := json.MarshalIndent(outs[0], "", " ")
	fmt.Println(string(ob))
	if len(outs[0].Failed) > 0 || len(outs[0].Panics) > 0 || outs[0].Crash != "" {
		fmt.Printf("VIOLATION property=%s replay=%s\n", spec.Property, file)
		return 1
	}
	return 0
}
