// Package smt: hash-consed term DAG (Bool, BitVec, Float64), a native evaluator
// and SMT-LIB2 emission for the symgo symbolic executor.
package smt

import (
	"fmt"
	"math"
	"math/big"
	"math/bits"
	"strings"
)

type Kind uint8

const (
	KBool Kind = iota
	KBV
	KFP // IEEE double
)

type Sort struct {
	K Kind
	W int // bit width for BV
}

func (s Sort) String() string {
	switch s.K {
	case KBool:
		return "Bool"
	case KBV:
		return fmt.Sprintf("(_ BitVec %d)", s.W)
	case KFP:
		return "(_ FloatingPoint 11 53)"
	}
	return "?"
}

var Bool = Sort{K: KBool}
var FP = Sort{K: KFP}

func BV(w int) Sort { return Sort{K: KBV, W: w} }

type Op uint8

const (
	OConst Op = iota // BV/Bool/FP constant (Val = bits)
	OInput           // named input (BV or Bool); FP inputs are BV inputs wrapped by OBitsToFP
	ONot
	OAnd
	OOr
	OIte
	OEq
	OAdd
	OSub
	OMul
	OUDiv
	OURem
	OSDiv
	OSRem
	OBAnd
	OBOr
	OBXor
	OBNot
	ONeg
	OShl
	OLShr
	OAShr
	OULt
	OULe
	OSLt
	OSLe
	OExtract // Lo, Hi
	OConcat  // args[0] high, args[1] low
	OZExt    // to Sort.W
	OSExt
	OFAdd
	OFSub
	OFMul
	OFDiv
	OFNeg
	OFLt
	OFLe
	OFEq
	OFIsNaN
	OFIsInf
	OUToF // unsigned bv -> fp RNE
	OSToF // signed bv -> fp RNE
	OFToU // fp -> unsigned bv RTZ (unspecified outside range; caller guards)
	OFToS
	OBitsToFP // reinterpret BV64 as FP
)

type Term struct {
	Op     Op
	Sort   Sort
	Args   []*Term
	Val    uint64 // constant bits
	Name   string // input name
	Lo, Hi int
	ID     int
	Big    *big.Int // constant value when Sort.W > 64
}

// Ctx is a per-path term context (hash-consing, input registry).
type Ctx struct {
	tab    map[string]*Term
	Terms  []*Term
	Inputs []*Term
	byName map[string]*Term
}

func NewCtx() *Ctx {
	return &Ctx{tab: map[string]*Term{}, byName: map[string]*Term{}}
}

func mask(w int) uint64 {
	if w >= 64 {
		return ^uint64(0)
	}
	return (uint64(1) << uint(w)) - 1
}

func (c *Ctx) mk(t *Term) *Term {
	var sb strings.Builder
	fmt.Fprintf(&sb, "%d|%d.%d|%x|%s|%d.%d", t.Op, t.Sort.K, t.Sort.W, t.Val, t.Name, t.Lo, t.Hi)
	if t.Big != nil {
		sb.WriteString("|B" + t.Big.Text(16))
	}
	for _, a := range t.Args {
		fmt.Fprintf(&sb, "|%d", a.ID)
	}
	k := sb.String()
	if o, ok := c.tab[k]; ok {
		return o
	}
	t.ID = len(c.Terms)
	c.Terms = append(c.Terms, t)
	c.tab[k] = t
	return t
}

// ConstBig makes a bit-vector constant of any width.
func (c *Ctx) ConstBig(s Sort, v *big.Int) *Term {
	m := new(big.Int).Lsh(big.NewInt(1), uint(s.W))
	v = new(big.Int).Mod(v, m)
	if s.W <= 64 {
		return c.Const(s, v.Uint64())
	}
	return c.mk(&Term{Op: OConst, Sort: s, Big: v})
}

func (c *Ctx) Const(s Sort, v uint64) *Term {
	if s.K == KBV && s.W > 64 {
		return c.ConstBig(s, new(big.Int).SetUint64(v))
	}
	if s.K == KBV {
		v &= mask(s.W)
	}
	if s.K == KBool {
		v &= 1
	}
	return c.mk(&Term{Op: OConst, Sort: s, Val: v})
}
func (c *Ctx) True() *Term  { return c.Const(Bool, 1) }
func (c *Ctx) False() *Term { return c.Const(Bool, 0) }
func (c *Ctx) BoolC(b bool) *Term {
	if b {
		return c.True()
	}
	return c.False()
}
func (c *Ctx) FPConst(f float64) *Term { return c.Const(FP, math.Float64bits(f)) }

// Input declares (or returns) the named input.
func (c *Ctx) Input(name string, s Sort) *Term {
	if t, ok := c.byName[name]; ok {
		if t.Sort != s {
			panic("smt: input redeclared with different sort: " + name)
		}
		return t
	}
	if s.K == KFP {
		panic("smt: FP inputs must be declared as BV64 and wrapped")
	}
	t := c.mk(&Term{Op: OInput, Sort: s, Name: name})
	c.byName[name] = t
	c.Inputs = append(c.Inputs, t)
	return t
}

func (t *Term) IsConst() bool { return t.Op == OConst }
func (t *Term) IsTrue() bool  { return t.Op == OConst && t.Sort.K == KBool && t.Val == 1 }
func (t *Term) IsFalse() bool { return t.Op == OConst && t.Sort.K == KBool && t.Val == 0 }

func allConst(args ...*Term) bool {
	for _, a := range args {
		if a.Op != OConst || a.Sort.W > 64 {
			return false
		}
	}
	return true
}

func isZero(t *Term) bool {
	if t.Op != OConst {
		return false
	}
	if t.Big != nil {
		return t.Big.Sign() == 0
	}
	return t.Val == 0
}

// App builds op(args...) with constant folding and light simplification.
func (c *Ctx) App(op Op, s Sort, args ...*Term) *Term {
	t := &Term{Op: op, Sort: s, Args: args}
	wide := s.W > 64
	for _, a := range args {
		if a.Sort.W > 64 {
			wide = true
		}
	}
	if allConst(args...) && !wide {
		return c.Const(s, evalOp(t, func(a *Term) uint64 { return a.Val }))
	}
	if wide {
		// no simplification on wide terms except trivial extension identity
		if (op == OZExt || op == OSExt) && args[0].Sort.W == s.W {
			return args[0]
		}
		return c.mk(t)
	}
	if s.K == KBV && len(args) == 2 && args[1].Op == OConst {
		k := args[1].Val
		w := s.W
		switch op {
		case OShl:
			if k == 0 {
				return args[0]
			}
			if k >= uint64(w) {
				return c.Const(s, 0)
			}
			return c.Concat(c.Extract(args[0], w-1-int(k), 0), c.Const(BV(int(k)), 0))
		case OLShr:
			if k == 0 {
				return args[0]
			}
			if k >= uint64(w) {
				return c.Const(s, 0)
			}
			return c.ZExt(c.Extract(args[0], w-1, int(k)), w)
		case OUDiv:
			if k != 0 && k&(k-1) == 0 {
				return c.App(OLShr, s, args[0], c.Const(s, uint64(bits.TrailingZeros64(k))))
			}
		case OURem:
			if k != 0 && k&(k-1) == 0 {
				n := bits.TrailingZeros64(k)
				if n == 0 {
					return c.Const(s, 0)
				}
				return c.ZExt(c.Extract(args[0], n-1, 0), w)
			}
		case OBAnd:
			// mask of n low bits
			if k != 0 && k&(k+1) == 0 {
				n := bits.Len64(k)
				if n >= w {
					return args[0]
				}
				return c.ZExt(c.Extract(args[0], n-1, 0), w)
			}
		}
	}
	if op == OBAnd && args[0].Op == OConst && args[1].Op != OConst {
		return c.App(OBAnd, s, args[1], args[0])
	}
	if op == OBOr && s.K == KBV {
		if r := c.mergeOr(s, args[0], args[1]); r != nil {
			return r
		}
	}
	switch op {
	case ONot:
		if args[0].Op == ONot {
			return args[0].Args[0]
		}
	case OAnd:
		a, b := args[0], args[1]
		if a.IsFalse() || b.IsFalse() {
			return c.False()
		}
		if a.IsTrue() {
			return b
		}
		if b.IsTrue() {
			return a
		}
		if a == b {
			return a
		}
	case OOr:
		a, b := args[0], args[1]
		if a.IsTrue() || b.IsTrue() {
			return c.True()
		}
		if a.IsFalse() {
			return b
		}
		if b.IsFalse() {
			return a
		}
		if a == b {
			return a
		}
	case OIte:
		if args[0].IsTrue() {
			return args[1]
		}
		if args[0].IsFalse() {
			return args[2]
		}
		if args[1] == args[2] {
			return args[1]
		}
		if s.K == KBool {
			if args[1].IsTrue() && args[2].IsFalse() {
				return args[0]
			}
			if args[1].IsFalse() && args[2].IsTrue() {
				return c.Not(args[0])
			}
		}
	case OEq:
		if args[0] == args[1] && args[0].Sort.K != KFP {
			return c.True()
		}
		// eq(ite(c,k1,k2), k) with constants
		for i := 0; i < 2; i++ {
			x, k := args[i], args[1-i]
			if k.Op == OConst && x.Op == OIte && x.Args[1].Op == OConst && x.Args[2].Op == OConst {
				e1 := x.Args[1].Val == k.Val
				e2 := x.Args[2].Val == k.Val
				switch {
				case e1 && e2:
					return c.True()
				case e1:
					return x.Args[0]
				case e2:
					return c.Not(x.Args[0])
				default:
					return c.False()
				}
			}
			// eq(zext(x), k): if k has high bits -> false, else eq(x, trunc k)
			if k.Op == OConst && x.Op == OZExt {
				in := x.Args[0]
				if k.Val&^mask(in.Sort.W) != 0 {
					return c.False()
				}
				return c.Eq(in, c.Const(in.Sort, k.Val))
			}
		}
	case OAdd, OBOr, OBXor:
		if args[0].Op == OConst && args[0].Val == 0 {
			return args[1]
		}
		if args[1].Op == OConst && args[1].Val == 0 {
			return args[0]
		}
	case OSub, OShl, OLShr, OAShr:
		if args[1].Op == OConst && args[1].Val == 0 {
			return args[0]
		}
	case OMul:
		for i := 0; i < 2; i++ {
			if args[i].Op == OConst && args[i].Val == 1 {
				return args[1-i]
			}
			if args[i].Op == OConst && args[i].Val == 0 {
				return c.Const(s, 0)
			}
		}
	case OBAnd:
		for i := 0; i < 2; i++ {
			if args[i].Op == OConst && args[i].Val == 0 {
				return c.Const(s, 0)
			}
			if args[i].Op == OConst && args[i].Val == mask(s.W) {
				return args[1-i]
			}
		}
	case OZExt, OSExt:
		if args[0].Sort.W == s.W {
			return args[0]
		}
		if op == OZExt && args[0].Op == OZExt {
			return c.App(OZExt, s, args[0].Args[0])
		}
	case OULt:
		// x <u 0 is false
		if args[1].Op == OConst && args[1].Val == 0 {
			return c.False()
		}
		if args[0] == args[1] {
			return c.False()
		}
		// zext(x) <u k where k > max(x)
		if args[0].Op == OZExt && args[1].Op == OConst && args[1].Val > mask(args[0].Args[0].Sort.W) {
			return c.True()
		}
	case OULe:
		if args[0].Op == OConst && args[0].Val == 0 {
			return c.True()
		}
		if args[0] == args[1] {
			return c.True()
		}
		if args[0].Op == OZExt && args[1].Op == OConst && args[1].Val >= mask(args[0].Args[0].Sort.W) {
			return c.True()
		}
	case OSLt:
		if args[0] == args[1] {
			return c.False()
		}
		// zext(x) <s 0 false
		if args[0].Op == OZExt && args[0].Args[0].Sort.W < s0w(args[0]) && args[1].Op == OConst && args[1].Val == 0 {
			return c.False()
		}
	case OSLe:
		if args[0] == args[1] {
			return c.True()
		}
	}
	return c.mk(t)
}

func s0w(t *Term) int { return t.Sort.W }

func (c *Ctx) Not(a *Term) *Term    { return c.App(ONot, Bool, a) }
func (c *Ctx) And(a, b *Term) *Term { return c.App(OAnd, Bool, a, b) }
func (c *Ctx) Or(a, b *Term) *Term  { return c.App(OOr, Bool, a, b) }
func (c *Ctx) Eq(a, b *Term) *Term {
	if a.Sort != b.Sort {
		panic(fmt.Sprintf("smt.Eq sort mismatch %v %v", a.Sort, b.Sort))
	}
	if a.Sort.K == KBool {
		// iff
		if b.Op == OConst {
			a, b = b, a
		}
		if a.Op == OConst {
			if a.Val == 1 {
				return b
			}
			return c.Not(b)
		}
	}
	return c.App(OEq, Bool, a, b)
}
func (c *Ctx) Ite(cond, a, b *Term) *Term { return c.App(OIte, a.Sort, cond, a, b) }
func (c *Ctx) Extract(a *Term, hi, lo int) *Term {
	if lo == 0 && hi == a.Sort.W-1 {
		return a
	}
	if a.Op == OConst && a.Big == nil {
		return c.Const(BV(hi-lo+1), a.Val>>uint(lo))
	}
	if a.Op == OConst && a.Big != nil {
		v := new(big.Int).Rsh(a.Big, uint(lo))
		return c.ConstBig(BV(hi-lo+1), v)
	}
	if a.Op == OZExt || a.Op == OSExt {
		in := a.Args[0]
		if hi < in.Sort.W {
			return c.Extract(in, hi, lo)
		}
		if a.Op == OZExt && lo >= in.Sort.W {
			return c.Const(BV(hi-lo+1), 0)
		}
		if a.Op == OZExt && lo < in.Sort.W {
			return c.ZExt(c.Extract(in, in.Sort.W-1, lo), hi-lo+1)
		}
	}
	if a.Op == OConcat {
		lw := a.Args[1].Sort.W
		if hi < lw {
			return c.Extract(a.Args[1], hi, lo)
		}
		if lo >= lw {
			return c.Extract(a.Args[0], hi-lw, lo-lw)
		}
	}
	if a.Op == OExtract {
		return c.Extract(a.Args[0], hi+a.Lo, lo+a.Lo)
	}
	return c.mk(&Term{Op: OExtract, Sort: BV(hi - lo + 1), Args: []*Term{a}, Lo: lo, Hi: hi})
}
func (c *Ctx) Concat(hi, lo *Term) *Term {
	s := BV(hi.Sort.W + lo.Sort.W)
	if hi.Op == OConst && lo.Op == OConst && s.W <= 64 {
		return c.Const(s, hi.Val<<uint(lo.Sort.W)|lo.Val)
	}
	if isZero(hi) {
		return c.App(OZExt, s, lo)
	}
	// concat(extract(x,h,m+1), extract(x,m,l)) = extract(x,h,l)
	if hi.Op == OExtract && lo.Op == OExtract && hi.Args[0] == lo.Args[0] && hi.Lo == lo.Hi+1 {
		return c.Extract(hi.Args[0], hi.Hi, lo.Lo)
	}
	return c.mk(&Term{Op: OConcat, Sort: s, Args: []*Term{hi, lo}})
}
func (c *Ctx) ZExt(a *Term, w int) *Term { return c.App(OZExt, BV(w), a) }

type seg struct {
	lo, w int
	t     *Term
}

// placed decomposes t into non-overlapping segments placed at bit offsets, all other
// bits being zero; ok=false if t has no such structure (it then occupies all bits).
func placed(t *Term, depth int) ([]seg, bool) {
	if t.Sort.W > 64 || depth > 12 {
		return nil, false
	}
	switch t.Op {
	case OConst:
		if t.Val == 0 {
			return nil, true
		}
		return nil, false
	case OZExt:
		if sg, ok := placed(t.Args[0], depth+1); ok {
			return sg, true
		}
		return []seg{{0, t.Args[0].Sort.W, t.Args[0]}}, true
	case OConcat:
		hi, lo := t.Args[0], t.Args[1]
		var out []seg
		if sg, ok := placed(lo, depth+1); ok {
			out = append(out, sg...)
		} else {
			out = append(out, seg{0, lo.Sort.W, lo})
		}
		if sg, ok := placed(hi, depth+1); ok {
			for _, x := range sg {
				out = append(out, seg{x.lo + lo.Sort.W, x.w, x.t})
			}
		} else {
			out = append(out, seg{lo.Sort.W, hi.Sort.W, hi})
		}
		return out, true
	}
	return nil, false
}

// mergeOr rewrites a|b into a concatenation when both have disjoint placed segments.
func (c *Ctx) mergeOr(s Sort, a, b *Term) *Term {
	sa, oka := placed(a, 0)
	sb, okb := placed(b, 0)
	if !oka || !okb {
		return nil
	}
	all := append(append([]seg{}, sa...), sb...)
	// sort by lo (insertion sort, tiny)
	for i := 1; i < len(all); i++ {
		for j := i; j > 0 && all[j].lo < all[j-1].lo; j-- {
			all[j], all[j-1] = all[j-1], all[j]
		}
	}
	pos := 0
	for _, x := range all {
		if x.lo < pos {
			return nil // overlap
		}
		pos = x.lo + x.w
	}
	if pos > s.W {
		return nil
	}
	var res *Term
	pos = 0
	add := func(t *Term) {
		if res == nil {
			res = t
		} else {
			res = c.Concat(t, res)
		}
	}
	for _, x := range all {
		if x.lo > pos {
			add(c.Const(BV(x.lo-pos), 0))
		}
		add(x.t)
		pos = x.lo + x.w
	}
	if res == nil {
		return c.Const(s, 0)
	}
	if pos < s.W {
		res = c.ZExt(res, s.W)
	}
	return res
}
func (c *Ctx) SExt(a *Term, w int) *Term { return c.App(OSExt, BV(w), a) }

func sx(v uint64, w int) int64 {
	if w >= 64 {
		return int64(v)
	}
	sh := uint(64 - w)
	return int64(v<<sh) >> sh
}

// evalOp evaluates a single node given a function returning the argument values.
func evalOp(t *Term, arg func(*Term) uint64) uint64 {
	a := func(i int) uint64 { return arg(t.Args[i]) }
	w := t.Sort.W
	b2u := func(b bool) uint64 {
		if b {
			return 1
		}
		return 0
	}
	f := func(i int) float64 { return math.Float64frombits(a(i)) }
	fb := func(x float64) uint64 {
		if x != x {
			return 0x7ff8000000000000
		}
		return math.Float64bits(x)
	}
	switch t.Op {
	case OConst:
		return t.Val
	case ONot:
		return a(0) ^ 1
	case OAnd:
		return a(0) & a(1)
	case OOr:
		return a(0) | a(1)
	case OIte:
		if a(0) == 1 {
			return a(1)
		}
		return a(2)
	case OEq:
		if t.Args[0].Sort.K == KFP {
			// SMT '=' on FP is structural equality (NaN = NaN, +0 != -0)
			x, y := f(0), f(1)
			if x != x && y != y {
				return 1
			}
			return b2u(a(0) == a(1))
		}
		return b2u(a(0) == a(1))
	case OAdd:
		return (a(0) + a(1)) & mask(w)
	case OSub:
		return (a(0) - a(1)) & mask(w)
	case OMul:
		return (a(0) * a(1)) & mask(w)
	case OUDiv:
		if a(1) == 0 {
			return mask(w)
		}
		return a(0) / a(1)
	case OURem:
		if a(1) == 0 {
			return a(0)
		}
		return a(0) % a(1)
	case OSDiv:
		x, y := sx(a(0), w), sx(a(1), w)
		if y == 0 {
			if x >= 0 {
				return mask(w)
			}
			return 1
		}
		if y == -1 {
			return uint64(-x) & mask(w)
		}
		return uint64(x/y) & mask(w)
	case OSRem:
		x, y := sx(a(0), w), sx(a(1), w)
		if y == 0 {
			return uint64(x) & mask(w)
		}
		if y == -1 {
			return 0
		}
		return uint64(x%y) & mask(w)
	case OBAnd:
		return a(0) & a(1)
	case OBOr:
		return a(0) | a(1)
	case OBXor:
		return a(0) ^ a(1)
	case OBNot:
		return ^a(0) & mask(w)
	case ONeg:
		return (-a(0)) & mask(w)
	case OShl:
		if a(1) >= uint64(w) {
			return 0
		}
		return (a(0) << a(1)) & mask(w)
	case OLShr:
		if a(1) >= uint64(w) {
			return 0
		}
		return a(0) >> a(1)
	case OAShr:
		x := sx(a(0), w)
		s := a(1)
		if s >= uint64(w) {
			s = uint64(w - 1)
		}
		return uint64(x>>s) & mask(w)
	case OULt:
		return b2u(a(0) < a(1))
	case OULe:
		return b2u(a(0) <= a(1))
	case OSLt:
		ww := t.Args[0].Sort.W
		return b2u(sx(a(0), ww) < sx(a(1), ww))
	case OSLe:
		ww := t.Args[0].Sort.W
		return b2u(sx(a(0), ww) <= sx(a(1), ww))
	case OExtract:
		return (a(0) >> uint(t.Lo)) & mask(t.Hi-t.Lo+1)
	case OConcat:
		return (a(0)<<uint(t.Args[1].Sort.W) | a(1)) & mask(w)
	case OZExt:
		return a(0)
	case OSExt:
		return uint64(sx(a(0), t.Args[0].Sort.W)) & mask(w)
	case OFAdd:
		return fb(f(0) + f(1))
	case OFSub:
		return fb(f(0) - f(1))
	case OFMul:
		return fb(f(0) * f(1))
	case OFDiv:
		return fb(f(0) / f(1))
	case OFNeg:
		return fb(-f(0))
	case OFLt:
		return b2u(f(0) < f(1))
	case OFLe:
		return b2u(f(0) <= f(1))
	case OFEq:
		return b2u(f(0) == f(1))
	case OFIsNaN:
		x := f(0)
		return b2u(x != x)
	case OFIsInf:
		return b2u(math.IsInf(f(0), 0))
	case OUToF:
		return fb(u2f(a(0), t.Args[0].Sort.W))
	case OSToF:
		return fb(float64(sx(a(0), t.Args[0].Sort.W)))
	case OFToU:
		x := math.Trunc(f(0))
		if !(x >= 0 && x < math.Ldexp(1, w)) { // unspecified: pick 0
			return 0
		}
		return f2u(x) & mask(w)
	case OFToS:
		x := math.Trunc(f(0))
		if !(x >= -math.Ldexp(1, w-1) && x < math.Ldexp(1, w-1)) {
			return 0
		}
		return uint64(int64(x)) & mask(w)
	case OBitsToFP:
		x := math.Float64frombits(a(0))
		return fb(x)
	}
	panic(fmt.Sprintf("evalOp: op %d", t.Op))
}

// u2f converts an unsigned integer to float64 with round-to-nearest-even.
func u2f(v uint64, w int) float64 {
	v &= mask(w)
	return float64(v) // Go: RNE for uint64->float64
}

// f2u truncates a non-negative in-range float toward zero.
func f2u(x float64) uint64 {
	if x <= 0 {
		return 0
	}
	if x >= 9223372036854775808.0 {
		return uint64(x-9223372036854775808.0) + (1 << 63)
	}
	return uint64(x)
}

// Eval evaluates t under the model (input name -> bits). Missing inputs are 0.
type Evaluator struct {
	Model map[string]uint64
	memo  map[*Term]uint64
	bmemo map[*Term]*big.Int
}

func NewEvaluator(m map[string]uint64) *Evaluator {
	return &Evaluator{Model: m, memo: map[*Term]uint64{}, bmemo: map[*Term]*big.Int{}}
}

func involvesWide(t *Term) bool {
	if t.Sort.W > 64 {
		return true
	}
	for _, a := range t.Args {
		if a.Sort.W > 64 {
			return true
		}
	}
	return false
}

func bigMask(w int) *big.Int {
	m := new(big.Int).Lsh(big.NewInt(1), uint(w))
	return m.Sub(m, big.NewInt(1))
}

func toSigned(v *big.Int, w int) *big.Int {
	if v.Bit(w-1) == 1 {
		return new(big.Int).Sub(v, new(big.Int).Lsh(big.NewInt(1), uint(w)))
	}
	return v
}

// EvalBig evaluates any bit-vector/bool term to a non-negative big integer.
func (e *Evaluator) EvalBig(t *Term) *big.Int {
	if !involvesWide(t) {
		return new(big.Int).SetUint64(e.Eval(t))
	}
	if v, ok := e.bmemo[t]; ok {
		return v
	}
	a := func(i int) *big.Int { return e.EvalBig(t.Args[i]) }
	w := t.Sort.W
	norm := func(v *big.Int) *big.Int { return new(big.Int).And(v, bigMask(w)) }
	b2 := func(b bool) *big.Int {
		if b {
			return big.NewInt(1)
		}
		return big.NewInt(0)
	}
	var r *big.Int
	switch t.Op {
	case OConst:
		if t.Big != nil {
			r = t.Big
		} else {
			r = new(big.Int).SetUint64(t.Val)
		}
	case OIte:
		if e.Eval(t.Args[0]) == 1 {
			r = a(1)
		} else {
			r = a(2)
		}
	case OEq:
		r = b2(a(0).Cmp(a(1)) == 0)
	case OAdd:
		r = norm(new(big.Int).Add(a(0), a(1)))
	case OSub:
		r = norm(new(big.Int).Sub(a(0), a(1)))
	case OMul:
		r = norm(new(big.Int).Mul(a(0), a(1)))
	case ONeg:
		r = norm(new(big.Int).Neg(a(0)))
	case OUDiv:
		if a(1).Sign() == 0 {
			r = bigMask(w)
		} else {
			r = new(big.Int).Div(a(0), a(1))
		}
	case OURem:
		if a(1).Sign() == 0 {
			r = a(0)
		} else {
			r = new(big.Int).Mod(a(0), a(1))
		}
	case OSDiv, OSRem:
		ww := t.Args[0].Sort.W
		x, y := toSigned(a(0), ww), toSigned(a(1), ww)
		if y.Sign() == 0 {
			if t.Op == OSRem {
				r = a(0)
			} else if x.Sign() >= 0 {
				r = bigMask(w)
			} else {
				r = big.NewInt(1)
			}
		} else if t.Op == OSDiv {
			r = norm(new(big.Int).Quo(x, y))
		} else {
			r = norm(new(big.Int).Rem(x, y))
		}
	case OBAnd:
		r = new(big.Int).And(a(0), a(1))
	case OBOr:
		r = new(big.Int).Or(a(0), a(1))
	case OBXor:
		r = new(big.Int).Xor(a(0), a(1))
	case OBNot:
		r = new(big.Int).Xor(a(0), bigMask(w))
	case OShl:
		if a(1).Cmp(big.NewInt(int64(w))) >= 0 {
			r = big.NewInt(0)
		} else {
			r = norm(new(big.Int).Lsh(a(0), uint(a(1).Uint64())))
		}
	case OLShr:
		if a(1).Cmp(big.NewInt(int64(w))) >= 0 {
			r = big.NewInt(0)
		} else {
			r = new(big.Int).Rsh(a(0), uint(a(1).Uint64()))
		}
	case OULt:
		r = b2(a(0).Cmp(a(1)) < 0)
	case OULe:
		r = b2(a(0).Cmp(a(1)) <= 0)
	case OSLt:
		ww := t.Args[0].Sort.W
		r = b2(toSigned(a(0), ww).Cmp(toSigned(a(1), ww)) < 0)
	case OSLe:
		ww := t.Args[0].Sort.W
		r = b2(toSigned(a(0), ww).Cmp(toSigned(a(1), ww)) <= 0)
	case OExtract:
		v := new(big.Int).Rsh(a(0), uint(t.Lo))
		r = v.And(v, bigMask(t.Hi-t.Lo+1))
	case OConcat:
		v := new(big.Int).Lsh(a(0), uint(t.Args[1].Sort.W))
		r = v.Or(v, a(1))
	case OZExt:
		r = a(0)
	case OSExt:
		r = norm(toSigned(a(0), t.Args[0].Sort.W))
	default:
		panic(fmt.Sprintf("EvalBig: unsupported wide op %d", t.Op))
	}
	e.bmemo[t] = r
	return r
}

func (e *Evaluator) Eval(t *Term) uint64 {
	switch t.Op {
	case OConst:
		return t.Val
	case OInput:
		v := e.Model[t.Name]
		if t.Sort.K == KBV {
			v &= mask(t.Sort.W)
		} else {
			v &= 1
		}
		return v
	}
	if v, ok := e.memo[t]; ok {
		return v
	}
	if involvesWide(t) {
		v := e.EvalBig(t).Uint64()
		e.memo[t] = v
		return v
	}
	// iterative-friendly: recursion depth is bounded by term depth; use explicit
	// evaluation of ite lazily to avoid evaluating both branches unnecessarily.
	var v uint64
	if t.Op == OIte {
		if e.Eval(t.Args[0]) == 1 {
			v = e.Eval(t.Args[1])
		} else {
			v = e.Eval(t.Args[2])
		}
	} else {
		v = evalOp(t, e.Eval)
	}
	e.memo[t] = v
	return v
}

var _ = bits.Len64

// ---- SMT-LIB emission ----

func bvLit(v uint64, w int) string {
	if w%4 == 0 {
		return fmt.Sprintf("#x%0*x", w/4, v&mask(w))
	}
	return fmt.Sprintf("#b%0*b", w, v&mask(w))
}

func ref(t *Term) string {
	switch t.Op {
	case OConst:
		switch t.Sort.K {
		case KBool:
			if t.Val == 1 {
				return "true"
			}
			return "false"
		case KBV:
			if t.Big != nil {
				if t.Sort.W%4 == 0 {
					return fmt.Sprintf("#x%0*s", t.Sort.W/4, t.Big.Text(16))
				}
				return fmt.Sprintf("#b%0*s", t.Sort.W, t.Big.Text(2))
			}
			return bvLit(t.Val, t.Sort.W)
		case KFP:
			return fmt.Sprintf("((_ to_fp 11 53) %s)", bvLit(t.Val, 64))
		}
	case OInput:
		return inputSym(t.Name)
	}
	return fmt.Sprintf("t%d", t.ID)
}

func inputSym(name string) string {
	var sb strings.Builder
	sb.WriteString("in_")
	for _, r := range name {
		switch {
		case r >= 'a' && r <= 'z', r >= 'A' && r <= 'Z', r >= '0' && r <= '9', r == '_', r == '.':
			sb.WriteRune(r)
		case r == '#':
			sb.WriteString("__")
		default:
			fmt.Fprintf(&sb, "_x%x_", r)
		}
	}
	return sb.String()
}

var opNames = map[Op]string{
	ONot: "not", OAnd: "and", OOr: "or", OIte: "ite", OEq: "=",
	OAdd: "bvadd", OSub: "bvsub", OMul: "bvmul", OUDiv: "bvudiv", OURem: "bvurem",
	OSDiv: "bvsdiv", OSRem: "bvsrem", OBAnd: "bvand", OBOr: "bvor", OBXor: "bvxor",
	OBNot: "bvnot", ONeg: "bvneg", OShl: "bvshl", OLShr: "bvlshr", OAShr: "bvashr",
	OULt: "bvult", OULe: "bvule", OSLt: "bvslt", OSLe: "bvsle", OConcat: "concat",
	OFLt: "fp.lt", OFLe: "fp.leq", OFEq: "fp.eq", OFIsNaN: "fp.isNaN", OFIsInf: "fp.isInfinite",
	OFNeg: "fp.neg",
}

// Expr returns the SMT-LIB expression defining t over references to its args.
func Expr(t *Term) string {
	r := func(i int) string { return ref(t.Args[i]) }
	switch t.Op {
	case OConst, OInput:
		return ref(t)
	case OExtract:
		return fmt.Sprintf("((_ extract %d %d) %s)", t.Hi, t.Lo, r(0))
	case OZExt:
		return fmt.Sprintf("((_ zero_extend %d) %s)", t.Sort.W-t.Args[0].Sort.W, r(0))
	case OSExt:
		return fmt.Sprintf("((_ sign_extend %d) %s)", t.Sort.W-t.Args[0].Sort.W, r(0))
	case OFAdd:
		return fmt.Sprintf("(fp.add RNE %s %s)", r(0), r(1))
	case OFSub:
		return fmt.Sprintf("(fp.sub RNE %s %s)", r(0), r(1))
	case OFMul:
		return fmt.Sprintf("(fp.mul RNE %s %s)", r(0), r(1))
	case OFDiv:
		return fmt.Sprintf("(fp.div RNE %s %s)", r(0), r(1))
	case OUToF:
		return fmt.Sprintf("((_ to_fp_unsigned 11 53) RNE %s)", r(0))
	case OSToF:
		return fmt.Sprintf("((_ to_fp 11 53) RNE %s)", r(0))
	case OFToU:
		return fmt.Sprintf("((_ fp.to_ubv %d) RTZ %s)", t.Sort.W, r(0))
	case OFToS:
		return fmt.Sprintf("((_ fp.to_sbv %d) RTZ %s)", t.Sort.W, r(0))
	case OBitsToFP:
		return fmt.Sprintf("((_ to_fp 11 53) %s)", r(0))
	}
	name, ok := opNames[t.Op]
	if !ok {
		panic(fmt.Sprintf("Expr: op %d", t.Op))
	}
	var sb strings.Builder
	sb.WriteString("(" + name)
	for i := range t.Args {
		sb.WriteString(" " + r(i))
	}
	sb.WriteString(")")
	return sb.String()
}

// Ref is the exported reference to a term in emitted scripts.
func Ref(t *Term) string { return ref(t) }

// InputSym is the exported SMT symbol for an input name.
func InputSym(name string) string { return inputSym(name) }
