package smt

import (
	"bufio"
	"bytes"
	"fmt"
	"io"
	"os"
	"os/exec"
	"sort"
	"strconv"
	"strings"
	"sync/atomic"
	"time"
)

type Result int

const (
	Unsat Result = iota
	Sat
	Unknown
)

func (r Result) String() string {
	return [...]string{"unsat", "sat", "unknown"}[r]
}

// Stats are global counters (atomics) shared by all solver sessions.
type Stats struct {
	Sat, Unsat, Unknown int64
	Fallback            int64 // queries answered by a fallback solver
	FallbackBy          [8]int64
	SolverNs            int64
	Errors              int64
	CrossChecked        int64
	CrossDisagree       int64
}

var GStats Stats

// Proc is a long-lived `z3 -in` process.
type Proc struct {
	cmd     *exec.Cmd
	in      io.WriteCloser
	out     *bufio.Reader
	seq     int
	Timeout int // ms, per check
	dead    bool
	Kind    string // "z3" | "cvc5-int"
}

func StartZ3(timeoutMs int) (*Proc, error) { return StartSolver("z3", timeoutMs) }

// StartSolver starts the primary incremental solver: "z3" (bit-blasting) or "cvc5-int"
// (cvc5 --solve-bv-as-int=sum: bit-vectors translated to integers, mod-2^k semantics kept).
func StartSolver(kind string, timeoutMs int) (*Proc, error) {
	var cmd *exec.Cmd
	switch kind {
	case "cvc5-int":
		cmd = exec.Command("cvc5", "--lang=smt2", "--incremental", "--solve-bv-as-int=sum", "--produce-models")
	default:
		kind = "z3"
		cmd = exec.Command("z3", "-in")
	}
	in, err := cmd.StdinPipe()
	if err != nil {
		return nil, err
	}
	outp, err := cmd.StdoutPipe()
	if err != nil {
		return nil, err
	}
	cmd.Stderr = os.Stderr
	if err := cmd.Start(); err != nil {
		return nil, err
	}
	p := &Proc{cmd: cmd, in: in, out: bufio.NewReaderSize(outp, 1<<16), Timeout: timeoutMs, Kind: kind}
	return p, nil
}

func (p *Proc) Close() {
	if p == nil || p.dead {
		return
	}
	p.dead = true
	p.in.Close()
	p.cmd.Process.Kill()
	p.cmd.Wait()
}

// roundtrip sends script and returns all output lines up to the marker.
func (p *Proc) roundtrip(script string) (string, error) {
	p.seq++
	marker := fmt.Sprintf("<<done-%d>>", p.seq)
	if d := os.Getenv("SYMGO_LASTQ"); d != "" {
		f, _ := os.OpenFile(fmt.Sprintf("%s/pipe-%d.smt2", d, os.Getpid()), os.O_APPEND|os.O_CREATE|os.O_WRONLY, 0o644)
		f.WriteString(script + "\n(echo \"" + marker + "\")\n")
		f.Close()
	}
	if _, err := io.WriteString(p.in, script+"\n(echo \""+marker+"\")\n"); err != nil {
		return "", err
	}
	var sb strings.Builder
	for {
		line, err := p.out.ReadString('\n')
		if err != nil {
			return sb.String(), fmt.Errorf("solver pipe: %v", err)
		}
		if strings.Contains(line, marker) {
			break
		}
		sb.WriteString(line)
	}
	return sb.String(), nil
}

// Session is the solver-side mirror of one path: definitions and assertions
// are sent lazily, only when a query is needed.
type Session struct {
	P          *Proc
	Ctx        *Ctx
	emitted    []bool // by term ID
	declared   map[string]bool
	log        bytes.Buffer // everything sent at base level (for fallback solvers)
	pending    []*Term      // assertions not yet sent
	started    bool
	NoFallback bool
}

func NewSession(p *Proc, c *Ctx) *Session {
	return &Session{P: p, Ctx: c, declared: map[string]bool{}}
}

func (s *Session) header() string {
	if s.P.Kind == "cvc5-int" {
		return fmt.Sprintf("(reset)\n(set-option :produce-models true)\n(set-option :tlimit-per %d)\n(set-logic ALL)\n", s.P.Timeout)
	}
	return fmt.Sprintf("(reset)\n(set-option :produce-models true)\n(set-option :timeout %d)\n", s.P.Timeout)
}

// collect returns the not-yet-emitted subterms of ts in ID order.
func (s *Session) collect(ts ...*Term) []*Term {
	var need []*Term
	seen := map[*Term]bool{}
	var stack []*Term
	stack = append(stack, ts...)
	for len(stack) > 0 {
		t := stack[len(stack)-1]
		stack = stack[:len(stack)-1]
		if seen[t] {
			continue
		}
		seen[t] = true
		if t.Op == OConst {
			continue
		}
		if t.Op == OInput {
			if !s.declared[t.Name] {
				need = append(need, t)
			}
			continue
		}
		if t.ID < len(s.emitted) && s.emitted[t.ID] {
			continue
		}
		need = append(need, t)
		stack = append(stack, t.Args...)
	}
	sort.Slice(need, func(i, j int) bool { return need[i].ID < need[j].ID })
	return need
}

func (s *Session) defs(ts ...*Term) string {
	var sb strings.Builder
	for _, t := range s.collect(ts...) {
		if t.Op == OInput {
			fmt.Fprintf(&sb, "(declare-const %s %s)\n", inputSym(t.Name), t.Sort)
			s.declared[t.Name] = true
			continue
		}
		fmt.Fprintf(&sb, "(define-fun t%d () %s %s)\n", t.ID, t.Sort, Expr(t))
		for len(s.emitted) <= t.ID {
			s.emitted = append(s.emitted, false)
		}
		s.emitted[t.ID] = true
	}
	return sb.String()
}

// Assert adds t to the path condition (sent lazily).
func (s *Session) Assert(t *Term) {
	if t.IsTrue() {
		return
	}
	s.pending = append(s.pending, t)
}

func (s *Session) flush() string {
	var sb strings.Builder
	if !s.started {
		s.started = true
		sb.WriteString(s.header())
	}
	if len(s.pending) > 0 {
		d := s.defs(s.pending...)
		sb.WriteString(d)
		s.log.WriteString(d)
		for _, t := range s.pending {
			a := fmt.Sprintf("(assert %s)\n", ref(t))
			sb.WriteString(a)
			s.log.WriteString(a)
		}
		s.pending = s.pending[:0]
	}
	return sb.String()
}

// Check decides pc ∧ extra. On Sat the model of all declared inputs is returned.
func (s *Session) Check(extra *Term) (Result, map[string]uint64, error) {
	t0 := time.Now()
	defer func() { atomic.AddInt64(&GStats.SolverNs, int64(time.Since(t0))) }()
	var sb strings.Builder
	sb.WriteString(s.flush())
	if extra != nil {
		d := s.defs(extra)
		sb.WriteString(d)
		s.log.WriteString(d)
	}
	var q strings.Builder
	q.WriteString("(push)\n")
	if extra != nil {
		fmt.Fprintf(&q, "(assert %s)\n", ref(extra))
	}
	q.WriteString("(check-sat)\n")
	sb.WriteString(q.String())
	tq := time.Now()
	if d := os.Getenv("SYMGO_LASTQ"); d != "" {
		os.WriteFile(fmt.Sprintf("%s/lastq-%d.smt2", d, os.Getpid()), []byte(s.Script(extra, false)), 0o644)
	}
	out, err := s.P.roundtrip(sb.String())
	if err != nil {
		return Unknown, nil, err
	}
	if d := os.Getenv("SYMGO_SLOW"); d != "" && time.Since(tq) > 500*time.Millisecond {
		dumpN++
		os.WriteFile(fmt.Sprintf("%s/slow-%d-%d.smt2", d, os.Getpid(), dumpN), []byte(fmt.Sprintf("; %v\n", time.Since(tq))+s.Script(extra, false)), 0o644)
	}
	res := Unknown
	if strings.Contains(out, "(error") {
		atomic.AddInt64(&GStats.Errors, 1)
		s.P.roundtrip("(pop)")
		return Unknown, nil, fmt.Errorf("solver error: %s", strings.TrimSpace(out))
	}
	switch strings.TrimSpace(lastLine(out)) {
	case "sat":
		res = Sat
	case "unsat":
		res = Unsat
	}
	var model map[string]uint64
	if res == Sat {
		model, err = s.getModel()
		if err != nil {
			s.P.roundtrip("(pop)")
			return Unknown, nil, err
		}
	}
	if _, err := s.P.roundtrip("(pop)"); err != nil {
		return Unknown, nil, err
	}
	if res == Unknown && !s.NoFallback {
		r2, m2, by := s.fallback(extra)
		if r2 != Unknown {
			atomic.AddInt64(&GStats.Fallback, 1)
			atomic.AddInt64(&GStats.FallbackBy[by], 1)
			res, model = r2, m2
		}
	}
	switch res {
	case Sat:
		atomic.AddInt64(&GStats.Sat, 1)
	case Unsat:
		atomic.AddInt64(&GStats.Unsat, 1)
	default:
		atomic.AddInt64(&GStats.Unknown, 1)
	}
	return res, model, nil
}

func lastLine(s string) string {
	s = strings.TrimSpace(s)
	if i := strings.LastIndexByte(s, '\n'); i >= 0 {
		return s[i+1:]
	}
	return s
}

func (s *Session) inputList() []string {
	var names []string
	for _, t := range s.Ctx.Inputs {
		if s.declared[t.Name] {
			names = append(names, t.Name)
		}
	}
	return names
}

func (s *Session) getModel() (map[string]uint64, error) {
	names := s.inputList()
	m := map[string]uint64{}
	if len(names) == 0 {
		return m, nil
	}
	var sb strings.Builder
	sb.WriteString("(get-value (")
	for _, n := range names {
		sb.WriteString(inputSym(n) + " ")
	}
	sb.WriteString("))")
	out, err := s.P.roundtrip(sb.String())
	if err != nil {
		return nil, err
	}
	if strings.Contains(out, "(error") {
		return nil, fmt.Errorf("get-value: %s", out)
	}
	if err := parseModel(out, names, m); err != nil {
		return nil, err
	}
	return m, nil
}

func parseModel(out string, names []string, m map[string]uint64) error {
	bySym := map[string]string{}
	for _, n := range names {
		bySym[inputSym(n)] = n
	}
	// tokens: ( sym value )
	toks := tokenize(out)
	for i := 0; i+1 < len(toks); i++ {
		if n, ok := bySym[toks[i]]; ok && i > 0 && toks[i-1] == "(" {
			v := toks[i+1]
			switch {
			case v == "true":
				m[n] = 1
			case v == "false":
				m[n] = 0
			case strings.HasPrefix(v, "#x"):
				u, err := strconv.ParseUint(v[2:], 16, 64)
				if err != nil {
					return err
				}
				m[n] = u
			case strings.HasPrefix(v, "#b"):
				u, err := strconv.ParseUint(v[2:], 2, 64)
				if err != nil {
					return err
				}
				m[n] = u
			case v == "(" && i+3 < len(toks) && toks[i+2] == "_" && strings.HasPrefix(toks[i+3], "bv"):
				u, err := strconv.ParseUint(toks[i+3][2:], 10, 64)
				if err != nil {
					return err
				}
				m[n] = u
			default:
				return fmt.Errorf("model value for %s: %q", n, v)
			}
		}
	}
	for _, n := range names {
		if _, ok := m[n]; !ok {
			return fmt.Errorf("model lacks %s in %q", n, out)
		}
	}
	return nil
}

func tokenize(s string) []string {
	var toks []string
	cur := strings.Builder{}
	fl := func() {
		if cur.Len() > 0 {
			toks = append(toks, cur.String())
			cur.Reset()
		}
	}
	for _, r := range s {
		switch r {
		case '(', ')':
			fl()
			toks = append(toks, string(r))
		case ' ', '\n', '\t', '\r':
			fl()
		default:
			cur.WriteRune(r)
		}
	}
	fl()
	return toks
}

// Script returns a complete standalone SMT-LIB script for pc ∧ extra.
func (s *Session) Script(extra *Term, wantModel bool) string {
	var sb strings.Builder
	sb.WriteString("(set-option :produce-models true)\n(set-logic ALL)\n")
	sb.Write(s.log.Bytes())
	if extra != nil {
		fmt.Fprintf(&sb, "(assert %s)\n", ref(extra))
	}
	sb.WriteString("(check-sat)\n")
	if wantModel {
		names := s.inputList()
		if len(names) > 0 {
			sb.WriteString("(get-value (")
			for _, n := range names {
				sb.WriteString(inputSym(n) + " ")
			}
			sb.WriteString("))\n")
		}
	}
	return sb.String()
}

// FallbackTimeout is the per-solver timeout for fallback solvers.
var FallbackTimeout = 60 * time.Second

type fb struct {
	name string
	argv []string
}

var fallbacks = []fb{
	{"cvc5-bv-as-int", []string{"cvc5", "--lang=smt2", "--solve-bv-as-int=sum", "--produce-models"}},
	{"cvc5", []string{"cvc5", "--lang=smt2", "--produce-models"}},
	{"z3-new", []string{"z3-new", "-in"}},
	{"z3-fresh", []string{"z3", "-in"}},
}

func FallbackNames() []string {
	var n []string
	for _, f := range fallbacks {
		n = append(n, f.name)
	}
	return n
}

func runOneShot(argv []string, script string, timeout time.Duration) (string, error) {
	cmd := exec.Command(argv[0], argv[1:]...)
	cmd.Stdin = strings.NewReader(script)
	var out bytes.Buffer
	cmd.Stdout = &out
	cmd.Stderr = &out
	if err := cmd.Start(); err != nil {
		return "", err
	}
	done := make(chan error, 1)
	go func() { done <- cmd.Wait() }()
	select {
	case <-done:
	case <-time.After(timeout):
		cmd.Process.Kill()
		<-done
		return out.String(), fmt.Errorf("timeout")
	}
	return out.String(), nil
}

var dumpN int

func (s *Session) fallback(extra *Term) (Result, map[string]uint64, int) {
	script := s.Script(extra, true)
	if d := os.Getenv("SYMGO_DUMP"); d != "" {
		dumpN++
		os.WriteFile(fmt.Sprintf("%s/q-%d-%d.smt2", d, os.Getpid(), dumpN), []byte(script), 0o644)
	}
	// two rounds: every solver briefly, then every solver with the long timeout
	for _, to := range []time.Duration{4 * time.Second, FallbackTimeout} {
		for i, f := range fallbacks {
			out, err := runOneShot(f.argv, script, to)
			if err != nil {
				continue
			}
			r, m := parseOneShot(out, s.inputList())
			if r != Unknown {
				return r, m, i
			}
		}
	}
	return Unknown, nil, 0
}

func parseOneShot(out string, names []string) (Result, map[string]uint64) {
	lines := strings.Split(out, "\n")
	for i, l := range lines {
		l = strings.TrimSpace(l)
		switch l {
		case "unsat":
			rest := strings.Join(lines[i+1:], "\n")
			// the only tolerated error after unsat is the refused get-value
			for _, e := range strings.Split(rest, "(error")[1:] {
				if !(strings.Contains(e, "Cannot get value") || strings.Contains(e, "model is not available")) {
					return Unknown, nil
				}
			}
			return Unsat, nil
		case "sat":
			rest := strings.Join(lines[i+1:], "\n")
			if strings.Contains(rest, "(error") {
				return Unknown, nil
			}
			m := map[string]uint64{}
			if err := parseModel(rest, names, m); err != nil {
				return Unknown, nil
			}
			return Sat, m
		case "unknown", "timeout":
			return Unknown, nil
		}
		if strings.Contains(l, "(error") {
			return Unknown, nil
		}
	}
	return Unknown, nil
}

// CrossCheck re-asks an unsat assertion query of a second solver (one-shot).
// Returns (agree, conclusive). Solvers are tried briefly first, then with a longer timeout.
func (s *Session) CrossCheck(extra *Term, want Result) (bool, bool) {
	script := s.Script(extra, false)
	var order []fb
	if s.P.Kind == "cvc5-int" {
		order = []fb{fallbacks[3], fallbacks[2], fallbacks[1]} // z3 fresh, z3-new, cvc5
	} else {
		order = []fb{fallbacks[0], fallbacks[1], fallbacks[2]} // cvc5-int, cvc5, z3-new
	}
	for _, to := range []time.Duration{4 * time.Second, 30 * time.Second} {
		for _, f := range order {
			out, err := runOneShot(f.argv, script, to)
			if err != nil {
				continue
			}
			r, _ := parseOneShot(out, nil)
			if r == Unknown {
				continue
			}
			atomic.AddInt64(&GStats.CrossChecked, 1)
			if r != want {
				atomic.AddInt64(&GStats.CrossDisagree, 1)
				return false, true
			}
			return true, true
		}
	}
	return false, false
}
