#!/bin/bash
# Runs /repo's stable baseline (guard tag OFF) and checks every test of BASELINE.json's stable_pass passes.
export GOFLAGS=-mod=mod GOPROXY=off GOSUMDB=off
cd /repo || exit 2
out=$(mktemp)
go test -json -vet=off -count=1 -timeout 25m ./core/logging/... ./core/statecache/... ./core/util/wmpt/... > "$out" 2>&1
python3 - "$out" <<'PY'
import json,sys
passed=set()
for l in open(sys.argv[1]):
    try: e=json.loads(l)
    except Exception: continue
    if e.get('Action')=='pass' and e.get('Test'):
        passed.add(e['Package']+'::'+e['Test'])
base=json.load(open('/root/.vp/BASELINE.json'))['stable_pass']
missing=[t for t in base if t not in passed]
print("baseline: %d/%d stable tests pass"%(len(base)-len(missing),len(base)))
for m in missing: print("MISSING",m)
sys.exit(1 if missing else 0)
PY
rc=$?
rm -f "$out"
exit $rc
