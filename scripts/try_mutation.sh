#!/bin/bash
# usage: try_mutation.sh <property-id> <patch.diff> [tier] [extra symgo args]
# Applies a seeded change to /repo, runs the property's check, and undoes the change straight afterwards.
id="$1"; patch="$(readlink -f "$2")"; tier="${3:-quick}"; shift 3 2>/dev/null
cd /verif || exit 2
if [ -n "$(git -C /repo status --porcelain)" ]; then echo "refusing: /repo is dirty"; exit 2; fi
git -C /repo apply "$patch" || { echo "patch does not apply"; exit 2; }
mkdir -p /tmp/mutev
./bin/symgo check -spec checks/$id.json -tier "$tier" -evidence /tmp/mutev/$id.json -replays /tmp/mutev/replays "$@"
rc=$?
git -C /repo checkout -- . && git -C /repo clean -fdq
echo "try_mutation: property=$id rc=$rc"
exit $rc
