#!/bin/bash
# usage: seeded_all.sh [tier] [ids...]  — runs every stored seeded change (seeded/<id>-<n>/patch.diff) against
# its property's check (apply to /repo, run, undo straight afterwards) and writes seeded/RESULTS.txt
tier="${1:-quick}"; shift
cd /verif || exit 2
out=seeded/RESULTS.txt; tmp=$(mktemp)
sel="$@"; [ -z "$sel" ] && sel=$(ls seeded | grep -E '^C[0-9]+-[0-9]+$')
for s in $sel; do
  id=${s%%-*}
  prop=$id
  [ -f seeded/$s/check_with ] && prop=$(cat seeded/$s/check_with)
  log=$(mktemp)
  ./scripts/try_mutation.sh $prop seeded/$s/patch.diff $tier > $log 2>&1; rc=$?
  labels=$(grep -E "^VIOLATION" $log | sed -E 's/.*label=([^ ]+).*/\1/' | sort -u | tr '\n' ',' | sed 's/,$//')
  inc=$(grep -c "^INCONCLUSIVE" $log)
  echo "$s check=$prop tier=$tier rc=$rc labels=$labels inconclusive=$inc" | tee -a $tmp
  rm -f $log
done
if [ -z "$*" ]; then mv $tmp $out; else cat $tmp; rm -f $tmp; fi
