#!/usr/bin/env python3
# usage: seed_setup.py <scratch-dir> [ids...]
# Prepares, per property, a scratch git worktree of /repo (outside /repo and /verif), a demo module
# and the prompt a fresh sub-agent gets: the property text only, nothing from /verif.  Mechanisms
# already used by earlier rounds are read from seeded/*/meta.json and named as "do not repeat".
import json, os, subprocess, sys, glob
root = sys.argv[1]
only = set(sys.argv[2:])
props = [json.loads(l) for l in open('/verif/properties.jsonl')]
os.makedirs(root, exist_ok=True)
subprocess.run(['cp', '-r', '/verif/stubs/grocksdb', root + '/grocksdb-stub'], check=True)
extra_avoid = {
 'C10': 'the already known weaknesses: sum-preserving re-weighting of a branch element, and a branch passed off as a value node',
 'C11': 'the already known weaknesses: reading Root() before commit; running DeleteNodes with uncommitted changes; two keys with identical value and weight',
 'C20': 'the already known derived-core cursor copy (entries written through a core derived with With())',
}
extra_req = {
 'C20': "Your change must break the property for histories that write only through the root logger's core, sequentially.",
}
for p in props:
    pid = p['id']
    if only and pid not in only:
        continue
    avoid = []
    for sd in sorted(glob.glob(f'/verif/seeded/{pid}-*')):
        m = sd + '/meta.json'
        if not os.path.exists(m):
            m = sd + '/agent_meta.json'
        s = json.load(open(m)).get('summary', '')
        avoid.append(s[:400])
    if pid in extra_avoid:
        avoid.append(extra_avoid[pid])
    d = f'{root}/{pid}'
    os.makedirs(d + '/demo', exist_ok=True)
    if not os.path.exists(d + '/wt'):
        subprocess.run(['git', '-C', '/repo', 'worktree', 'add', '-q', '--detach', d + '/wt', 'HEAD'], check=True)
    open(d + '/demo/go.mod', 'w').write(f'''module demo

go 1.21

require (
	github.com/0chain/common v0.0.0
	github.com/linxGnu/grocksdb v1.8.0
)

replace github.com/0chain/common => {d}/wt

replace github.com/linxGnu/grocksdb => {root}/grocksdb-stub

replace github.com/tinylib/msgp => github.com/0chain/msgp v1.1.62
''')
    subprocess.run(['cp', '/repo/go.sum', d + '/demo/'])
    avoid_txt = '\n'.join(f'      - {a}' for a in avoid)
    text = f"""You are helping to evaluate how sensitive a verification effort is. Work ONLY inside {d}/ (never read or touch /repo, /verif or any other directory under {root}/).

{d}/wt is a scratch git worktree of the Go library 0chain/common (Merkle Patricia trie with layered node DBs, weighted Merkle trie with proofs, block/txn state cache, currency helpers, in-memory log buffer).

PROPERTY {pid}: {p['title']}
Statement: {p['statement']}
Quantifier: {p['quantifier']['text']}
Anchors (where the behaviour lives): {json.dumps(p['anchors'].get('mechanism', []))}

YOUR TASK: make ONE realistic change to the library's non-test source code in {d}/wt that BREAKS this property, such that
  (a) the code still compiles (core/util does not build with the real RocksDB binding in this sandbox, but it must type-check through the demo module described below; the other packages build with `go build` in the worktree),
  (b) the existing runnable test suite still passes:  cd {d}/wt && GOFLAGS=-mod=mod GOPROXY=off GOSUMDB=off go test -vet=off -count=1 ./core/logging/... ./core/statecache/... ./core/util/wmpt/...   (TestBlockCacheGetFromPrevious and TestSerializeHashNode already fail on the unchanged code; every other test must still pass; do not edit test files),
  (c) the breakage needs something SPECIFIC to manifest - a particular interleaving, a crash or fault at a particular point, a multi-step sequence of operations, an unusual input, or two cooperating sites that each look fine alone - NOT something ordinary use would expose at once. Prefer a subtle, plausible regression over deleting functionality. Keep it to a few lines.
  (d) IMPORTANT - earlier changes already used the following mechanisms, so do NOT use them or close variants; find a DIFFERENT place and mechanism (a different function if at all possible):
{avoid_txt}
  {extra_req.get(pid, '')}

DEMONSTRATION: {d}/demo is a prepared Go module (go.mod replaces github.com/0chain/common with your worktree and github.com/linxGnu/grocksdb with a pure-Go in-memory stub, so core/util compiles there; go.sum is present). Write a Go test there (package demo) that FAILS with your change and PASSES on the unchanged code. Run it with: cd {d}/demo && GOFLAGS=-mod=mod GOPROXY=off GOSUMDB=off go test -count=1 ./...   Verify both directions yourself. To switch between changed and unchanged code do NOT use `git stash` (the stash is shared with other people's worktrees of the same repository); instead: `git -C {d}/wt diff > {d}/patch.diff`, then `git -C {d}/wt apply -R {d}/patch.diff` (unchanged) and `git -C {d}/wt apply {d}/patch.diff` (changed again). In tests that use core/util set logging.Logger = zap.NewNop() (import github.com/0chain/common/core/logging and go.uber.org/zap). The statecache package has a build-tag-guarded hook (tag `verif`): `statecache.VerifYield func(site string)`, called before each shared-map access in StateCache.Get/commit, usable with `-tags verif` to force an interleaving.

If, while reading, you find that the UNCHANGED code already violates the property for some input or history, do not use that as your change: report it separately at the end (exact reproducer), and still deliver a change of your own.

DELIVERABLES (all under {d}/): patch.diff (the change, also left applied in the worktree; it must contain ONLY your change), demo/ (the demonstration test), meta.json {{"property": "{pid}", "summary": "...", "what_it_needs_to_manifest": "...", "files_changed": [...], "verified": "what you ran and observed in both directions"}}.
The sandbox is offline; nothing can be downloaded. Finish with a short summary."""
    open(d + '/PROMPT.txt', 'w').write(text)
print('ok')
