#!/bin/bash
# usage: confirm_mutation.sh <id>   (in /tmp/mut/<id>: wt = worktree with the change applied, demo = demonstration module)
# Confirms: compiles, existing suite passes with the change, demo fails with and passes without the change.
id="$1"; d=${MUTDIR:-/tmp/mut}/$id
export GOFLAGS=-mod=mod GOPROXY=off GOSUMDB=off GOTOOLCHAIN=local
cd $d/wt || exit 2
# the delivered patch.diff is canonical: reset the scratch worktree and apply exactly that
git checkout -q -- . && git apply $d/patch.diff || { echo "patch.diff does not apply to HEAD"; exit 2; }
git diff > $d/patch.check.diff
[ -s $d/patch.check.diff ] || { echo "NO CHANGE in worktree"; exit 2; }
go build ./core/currency/... ./core/logging/... ./core/statecache/... ./core/util/wmpt/... ./core/common/... ./core/encryption/... || { echo "BUILD FAILS"; exit 1; }
(cd $d/demo && go build github.com/0chain/common/core/util) || { echo "core/util BUILD FAILS (stub)"; exit 1; }
out=$(mktemp)
go test -json -vet=off -count=1 ./core/logging/... ./core/statecache/... ./core/util/wmpt/... > $out 2>&1
python3 - $out <<'PY'
import json,sys
passed=set()
for l in open(sys.argv[1]):
    try: e=json.loads(l)
    except Exception: continue
    if e.get('Action')=='pass' and e.get('Test'): passed.add(e['Package']+'::'+e['Test'])
base=json.load(open('/root/.vp/BASELINE.json'))['stable_pass']
missing=[t for t in base if t not in passed]
print("suite with change: %d/%d stable tests pass"%(len(base)-len(missing),len(base)))
for m in missing: print("  MISSING",m)
sys.exit(1 if missing else 0)
PY
suite=$?; rm -f $out
tags=""; grep -rqs "go:build verif" $d/demo/*.go && tags="-tags verif"
race=""; grep -qs '"race"\|-race' $d/meta.json && race="-race"
(cd $d/demo && go test -count=1 $tags $race ./... > $d/demo_with.log 2>&1); with=$?
# (git stash is shared between worktrees of one repository: switch with apply -R / apply)
git apply -R $d/patch.check.diff
(cd $d/demo && go test -count=1 $tags $race ./... > $d/demo_without.log 2>&1); without=$?
git apply $d/patch.check.diff
echo "suite_ok=$((1-suite)) demo_with_change_rc=$with demo_without_change_rc=$without (tags='$tags' race='$race')"
if [ $suite -eq 0 ] && [ $with -ne 0 ] && [ $without -eq 0 ]; then echo "CONFIRMED $id"; exit 0; fi
echo "NOT CONFIRMED $id"; exit 1
