#!/usr/bin/env python3
# Prints the §16.2 table of DESIGN.md: prose per property (below) + paths/wall from the evidence of the
# last quick run (/verif/evidence) and, where present, of the last thorough run (argv[1] directory).
import json, os, sys
Q = {
 'C01': "12 seeds × k=1 (all 4 op kinds, paths ≤ 4 over {0,a}, values 1–2 symbolic bytes, version symbolic) on memory store, the empty trie opened with a nil and with an empty non-nil root; 3 seeds × k=1 on layered and persistent stores; 4 seeds × k=2 (insert/delete); root branch with an empty slot × k=2 over a 4-symbol alphabet",
 'C02': "as C01 + independent root oracle after every op; two-history injectivity",
 'C03': "1 pending parent op + 1 op in child 1 (3 seeds incl. the aliasing witness seeds); 1 op in each of two children (seed 4, and the empty parent); 3 ops in one child over short paths; all merge/discard/stale decisions",
 'C04': "seed + 2 rounds × 1 txn, 1 round × 2 txns, a 3-operation transaction, a delete/re-insert/insert transaction; crash at every point of the last save",
 'C05': "as C04 + dead-node records, prune at every version, crash at every point of the prune; one run with the seed saved at a non-zero version",
 'C06': "3 blocks any shape (gaps), 4-chain, commit orders / commit-lookup interleavings, 2 lookups × 5 access paths (query cache, probe block, probe txn, the block's own handle, a txn on it); eviction run at per-key capacity 2",
 'C07': "0–2 forced Sets + 3 free ops over 3 txn caches / 2 block caches / queries; trie-node values with payload mutation",
 'C08': "1 committer + 1 reader all schedules; + 2 readers ≤ 2 pre-emptions; a reader through the committing block's own handle (≤ 2); 2 committers (all schedules the lock admits) and 2 committers + 1 reader ≤ 2 pre-emptions; HB monitor",
 'C09': "pool of 3–6 keys, 2–3 free ops after 0–3 forced updates, levels {0,1,2,64}, reload, GC; keys sharing a 3-nibble prefix",
 'C10': "1–3 keys, 5 shapes (incl. non-zero leading nibbles), 9 tamper kinds at every position, fresh or re-used verifier, prover in memory / committed+collapsed / reopened",
 'C11': "2–3 keys, optional committed prefix + 3 free ops incl. root reads and GC passes; disciplined windows (commit, GC all-or-none)",
 'C12': "5 shapes × {1,2,3,4,6,12} keys × request sets × 5 source modes (in memory, reloaded, collapsed, CopyRoot(1/2) views) × 1 follow-up",
 'C13': "2–3 key checkpoint, 1–2 changes of 5 kinds, 3 levels, GC yes/no, both entry points, two GC passes after the rollback; one run with a GC round before the checkpoint and a failing-then-retried GC pass",
 'C14': "codec of all 4 node kinds with symbolic fields; store audit after seed(+version bump)+1 op on 3 stores, change set saved to a second store and re-opened; fresh trie over a layered store on a saved base",
 'C15': "CreateNode on all inputs ≤ 25 bytes, 33-byte branch inputs, structured long families; wmpt node/trie/proof decoders on all target-type values within bounds incl. null elements",
 'C16': "2 goroutines × 1 op of 6 kinds (change-set reader inspects its records), pre-emption bound 1; 2 concurrent inserts into an empty trie (bound 2); lookup/insert under absent nodes concurrent with lookup/missing-key read (bound 2); HB monitor; deadlock detection",
 'C17': "4 seeds × every subset of removable nodes × same/different version; repair interrupted by a failing write at every node (2 seeds); a two-level store",
 'C18': "all 14 helpers, full-width operands; ParseZCN exponents −14..12",
 'C19': "n ≤ 24 all indices, other leaf = 64 symbolic bytes; duplicate-leaf variant; re-used tree object; rejected SetTree; earlier path re-verified after another path was handed out",
 'C20': "capacity 4 (overlay), root + ≤ 2 derived cores, 5–6 ops, entries with/without fields; 2 concurrent writers × 3 (wrapping) and 2 writers × 2 + snapshot reader, pre-emption bounded",
}
T = {
 'C01': "alphabet 3 at k=1 on all seeds, k=1 on all seeds and stores, k=2 on all 10 seeds and 4 seeds per store, k=3 from empty",
 'C02': "alphabet 3 / length 6 at k=1, k=2 all seeds, k=3 from empty, injectivity over alphabet 3",
 'C03': "7 + 4 seeds, pending deletes, 2 ops in a child",
 'C04': "4 seeds with free merge/discard, 3 rounds",
 'C05': "free merge/discard on one seed, 3 rounds, longer paths at the non-zero seed version",
 'C06': "3 lookups, 4 blocks any shape, 2 keys",
 'C07': "4 free ops",
 'C08': "3 pre-emptions",
 'C09': "4 ops / 5–6 keys / 3 op kinds on the deep pool",
 'C10': "3 keys in every shape",
 'C11': "5 ops on 2 keys, all op kinds on 3 keys, 3 collapse levels in the windows",
 'C12': "14 keys, 2 follow-ups",
 'C13': "3 changes on the 2-key checkpoint, 2 changes in the fault run",
 'C14': "longer fields, k=2, all seeds",
 'C15': "29 bytes, 34–36-byte branches, 3-element proofs",
 'C16': "3 paths, bounds 2–3, 6 kinds on the empty trie",
 'C17': "9 seeds",
 'C18': "exponents −30..30, second-solver re-check of every unsat",
 'C19': "n ≤ 64, other-leaf lengths 0/63/64/65",
 'C20': "7–8 ops, 3–4 pre-emptions",
}
tdir = sys.argv[1] if len(sys.argv) > 1 else None
def fmt(p):
    return f"{p/1000:.1f} k" if p >= 1000 else str(p)
print("| id | quick: what is explored | paths | wall | thorough adds | thorough paths / wall |")
print("|----|------------------------|-------|------|---------------|-----------------------|")
for i in range(1, 21):
    c = f"C{i:02d}"
    e = json.load(open(f"/verif/evidence/{c}.json"))
    qp, qw = e['coverage']['paths_completed'], e['wall_s']
    tcol = "not registered"
    if tdir and os.path.exists(f"{tdir}/{c}.json"):
        t = json.load(open(f"{tdir}/{c}.json"))
        if t.get('tier') == 'thorough' and not t['coverage'].get('inconclusive'):
            tcol = f"{fmt(t['coverage']['paths_completed'])} / {t['wall_s']/60:.0f} min" if t['wall_s'] >= 90 else f"{fmt(t['coverage']['paths_completed'])} / {t['wall_s']:.0f} s"
    print(f"| {c} | {Q[c]} | {fmt(qp)} | {qw:.0f} s | {T[c]} | {tcol} |")
