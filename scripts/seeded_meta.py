#!/usr/bin/env python3
# Writes seeded/<id>-<round>/meta.json for rounds 2 and 3 from the sub-agent's agent_meta.json, the
# curated record of what each change needed (below) and the last seeded/RESULTS.txt; refreshes
# caught_now / violated_labels of round 1; prints the DESIGN.md tables.
import json, os, re, sys
FIRST = {  # caught by the quick check as it was when the change arrived
 2: {'C01':True,'C02':True,'C03':True,'C04':False,'C05':True,'C06':True,'C07':False,'C08':False,'C09':False,'C10':False,
     'C11':True,'C12':False,'C13':True,'C14':False,'C15':True,'C16':False,'C17':True,'C18':True,'C19':False,'C20':True},
 3: {'C01':False,'C02':True,'C03':False,'C04':False,'C05':False,'C06':False,'C07':True,'C08':True,'C09':True,'C10':False,
     'C11':True,'C12':False,'C13':False,'C14':False,'C15':True,'C16':False,'C17':False,'C18':True,'C19':True,'C20':False},
 4: {'C01':True,'C02':True,'C03':True,'C04':False,'C05':True,'C06':False,'C07':True,'C08':False,'C09':True,'C10':False,
     'C11':True,'C12':False,'C13':True,'C14':False,'C15':True,'C16':False,'C17':False,'C18':True,'C19':True,'C20':False},
}
STRENGTH = {
 2: {
 'C04':'none in C04: the change reports a still-referenced branch as dead, which the C04 runs (no prune) cannot see; the C05 check, whose subject dead-node records are, catches it (check_with = C05)',
 'C07':'H_Nodes mutates the payload object held by every node value it receives and by the values it wrote',
 'C08':'new H_Committers runs: two concurrent committers of different blocks writing the same (new or existing) key, with and without a reader',
 'C09':'run deep3-p3-k3: keys sharing a 3-nibble prefix below a shared-prefix node, delete below a branch that keeps two children',
 'C10':'the verifier object is optionally one that already verified an honest proof',
 'C12':'source shape 4: twin keys that differ only in their last nibble',
 'C14':'the pending change set is saved (SaveChanges) to a second store, which is audited and re-opened at the saved root; engine: append grows like runtime.growslice so that prefix aliasing is the compiled program\'s (the change had passed symbolically and failed native validation)',
 'C16':'run g2-o1-empty: two concurrent inserts into an empty trie',
 'C19':'a rejected SetTree call on the tree object before it is used',
 },
 3: {
 'C01':'run mem-seed12-k2-a4: a root branch with an empty slot, 4-symbol alphabet, two operations (equal suffix and equal value arise through the hash-equality fork)',
 'C03':'the empty-parent run with two children (seed 0) moved into the quick tier',
 'C04':'NOT CAUGHT: the change splits a save into batches of 256 nodes and skips a save whose root is already stored; it needs a round with more than 256 changed nodes, far outside the registered history bound (rounds of 1-3 operations)',
 'C05':'run seed3-r2-v5: the seed round is saved at a non-zero version (new parameter seedversion), so that a cloned node can keep a stale non-zero origin',
 'C06':'none in C06 (one transaction cache per block there); the C07 check, which runs three transaction caches over two block caches, catches it (check_with = C07)',
 'C10':'honest proofs are also produced by a trie committed to storage with collapsed levels and by a trie reopened from its root hash',
 'C12':'2-key source shapes (the requested key\'s only sibling is an unrequested shared-prefix node)',
 'C13':'run k2-c1-gcfault: an earlier GC round before the checkpoint and an intervening GC pass that fails once with a storage error and is retried',
 'C14':'the trie object optionally moves to another version between the seed and the symbolic operations (one change set spanning two versions) before SaveChanges',
 'C16':'engine: a pending RWMutex writer blocks new readers, so a recursive read lock deadlocks with a writer arriving in between (reported as kind=deadlock)',
 'C17':'new H_RepairFault: the repair is interrupted by a failing store write at an enumerated node; the same trie must go on reporting what is still absent',
 'C20':'entries are written with or without a field; a retained entry must carry exactly its own fields',
 },
 4: {
 'C04':'run readd-r1-tx2x3: the last transaction of a round deletes a path, re-inserts it and inserts another (fixed operation kinds, all paths and values)',
 'C06':'none in C06 (sequential); the change publishes a block\'s link before its values, which only a lookup overlapping the commit sees: the C08 check catches it (check_with = C08)',
 'C08':'run r1-l1-own: the reader may go through the committing block\'s own handle',
 'C10':'tamper kind 9 (a shared-prefix element\'s key lengthened by its child hash, followed by an arbitrary value element) and a single-key trie run',
 'C12':'sources viewed through CopyRoot(1) / CopyRoot(2) over committed storage (modes 3 and 4)',
 'C14':'none in C14 (its values stay far below the 10 MiB limit the change truncates at); the C01 check, which shrinks MPTMaxAllowableNodeSize to 8 by overlay, catches it (check_with = C01)',
 'C16':'the absent-node run: goroutine 0 may Insert under an absent node, goroutine 1 may read the missing-key list (lock-order inversion shows as kind=deadlock)',
 'C17':'run layered-seed3: the trie\'s store is a two-level LevelNodeDB',
 'C19':'after a path was obtained the tree hands out another path; the earlier path must still verify',
 'C20':'NOT CAUGHT: the change mutates retained entries inside WriteLogs; WriteLogs builds a zap console encoder, which the engine stubs (a call on the stubbed encoder would abort the path), so no run calls it',
 },
}
res = {}
for l in open('/verif/seeded/RESULTS.txt'):
    m = re.match(r'(C\d+-\d+) check=(C\d+) tier=(\w+) rc=(\d+) labels=(\S*) inconclusive=(\d+)', l)
    if m: res[m.group(1)] = m.groups()
rows = {1: [], 2: [], 3: [], 4: []}
for d in sorted(os.listdir('/verif/seeded')):
    m = re.match(r'(C\d\d)-(\d)$', d)
    if not m: continue
    pid, rnd = m.group(1), int(m.group(2))
    r = res.get(d)
    caught = bool(r and r[3] == '1')
    labels = (r[4].split(',') if r and r[4] else [])
    mp = f'/verif/seeded/{d}/meta.json'
    if rnd == 1:
        meta = json.load(open(mp))
        meta['caught_now'] = caught
        meta['violated_labels'] = labels
    else:
        a = json.load(open(f'/verif/seeded/{d}/agent_meta.json'))
        meta = {
         'property': pid, 'round': rnd,
         'origin': 'independent sub-agent given only the property text and a scratch worktree (no access to /verif)',
         'summary': a.get('summary', ''),
         'needs_to_manifest': a.get('what_it_needs_to_manifest', a.get('needs_to_manifest', '')),
         'files_changed': a.get('files_changed', []),
         'confirmed_by': 'scripts/confirm_mutation.sh: scratch worktree reset to /repo HEAD, patch.diff applied; builds; 54/54 baseline tests pass with the change; demo fails with and passes without the change (demo_with.log / demo_without.log)',
         'check_run': f'scripts/try_mutation.sh {r[1] if r else pid} seeded/{d}/patch.diff quick  (git -C /repo apply; ./check; git -C /repo checkout -- .)',
         'caught_by_quick_check_as_first_built': FIRST[rnd][pid],
         'caught_now': caught,
         'caught_by_check': r[1] if r else pid,
         'strengthening': STRENGTH[rnd].get(pid, ''),
         'violated_labels': labels,
        }
        if os.path.exists(f'/verif/seeded/{d}/REBASED.txt'):
            meta['rebased'] = open(f'/verif/seeded/{d}/REBASED.txt').read().strip()
    json.dump(meta, open(mp, 'w'), indent=1)
    rows[rnd].append((d, meta))
if '--table' in sys.argv:
    for rnd in (2, 3, 4):
        print(f'\nRound {rnd}:\n')
        print('| id | seeded change | first | now | violated assertion | what was strengthened |')
        print('|----|---------------|-------|-----|--------------------|------------------------|')
        for d, m in rows[rnd]:
            s = m['summary'].replace('\n', ' ').replace('|', '/')
            s = s[:230] + ('…' if len(s) > 230 else '')
            by = '' if m['caught_by_check'] == m['property'] else f" (by the {m['caught_by_check']} check)"
            print(f"| {d} | {s} | {'yes' if m['caught_by_quick_check_as_first_built'] else 'no'} | {'yes' if m['caught_now'] else 'NO'}{by} | {', '.join(m['violated_labels'][:2])} | {m['strengthening'] or '–'} |")
print({r: (sum(1 for _, m in rows[r] if m['caught_now']), len(rows[r])) for r in rows})
