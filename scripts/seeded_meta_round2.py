#!/usr/bin/env python3
# Writes seeded/<id>-2/meta.json from the sub-agent's agent_meta.json, the record of what was
# strengthened (below) and the last seeded/RESULTS.txt.
import json, os, re
first = {  # caught by the quick check as it was when the change arrived
 'C01':True,'C02':True,'C03':True,'C04':False,'C05':True,'C06':True,'C07':False,'C08':False,'C09':False,'C10':False,
 'C11':True,'C12':False,'C13':True,'C14':False,'C15':True,'C16':False,'C17':True,'C18':True,'C19':False,'C20':True}
strength = {
 'C04':'none in C04: the change reports a still-referenced branch as dead, which the C04 runs (no prune) cannot see; the C05 check, whose subject dead-node records are, catches it (check_with = C05)',
 'C07':'H_Nodes mutates the payload object held by every node value it receives and by the values it wrote (state objects are reachable through the node wrapper)',
 'C08':'new H_Committers runs: two concurrent committers of different blocks writing the same (new or existing) key, with and without a reader',
 'C09':'run deep3-p3-k3: pool whose keys share a 3-nibble prefix below a shared-prefix node, delete below a branch that keeps two children',
 'C10':'the verifier object is optionally reused: it first verifies an honest proof of another block (vp.Choose)',
 'C12':'source shape 4: twin keys that differ only in their last nibble',
 'C14':'the pending change set is saved (SaveChanges) to a second store, which is audited and re-opened at the saved root; engine: append now grows like runtime.growslice so that prefix aliasing is the compiled program\'s',
 'C16':'run g2-o1-empty: two concurrent inserts into an empty trie',
 'C19':'a rejected SetTree call on the tree object before it is used',
}
res = {}
for l in open('/verif/seeded/RESULTS.txt'):
    m = re.match(r'(C\d+-\d+) check=(C\d+) tier=(\w+) rc=(\d+) labels=(\S*) inconclusive=(\d+)', l)
    if m: res[m.group(1)] = m.groups()
for d in sorted(os.listdir('/verif/seeded')):
    if not d.endswith('-2'): continue
    pid = d[:3]
    a = json.load(open(f'/verif/seeded/{d}/agent_meta.json'))
    r = res.get(d)
    meta = {
     'property': pid,
     'round': 2,
     'origin': 'independent sub-agent given only the property text and a scratch worktree (no access to /verif)',
     'summary': a.get('summary',''),
     'needs_to_manifest': a.get('what_it_needs_to_manifest', a.get('needs_to_manifest','')),
     'files_changed': a.get('files_changed',[]),
     'confirmed_by': 'scripts/confirm_mutation.sh (MUTDIR=/tmp/mut2): reset scratch worktree to /repo HEAD, apply patch.diff; builds; 54/54 baseline tests pass with the change; demo fails with and passes without the change (demo_with.log / demo_without.log)',
     'check_run': f'scripts/try_mutation.sh {r[1] if r else pid} seeded/{d}/patch.diff quick  (git -C /repo apply; ./check; git -C /repo checkout -- .)',
     'caught_by_quick_check_as_first_built': first[pid],
     'caught_now': bool(r and r[3]=='1'),
     'caught_by_check': r[1] if r else pid,
     'strengthening': strength.get(pid,''),
     'violated_labels': (r[4].split(',') if r and r[4] else []),
    }
    json.dump(meta, open(f'/verif/seeded/{d}/meta.json','w'), indent=1)
    print(d, meta['caught_now'], meta['violated_labels'])
