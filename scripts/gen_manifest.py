#!/usr/bin/env python3
"""Regenerates /verif/MANIFEST.json from the table below (claimed checks) and properties.jsonl."""
import json, subprocess

TECH = "SMT-based symbolic execution of go/ssa (real code), solver verdict per path within stated bounds"
TRUST = ("trusted: go/ssa construction, the symgo interpreter/term encoder (sampled explored paths are replayed "
         "natively against the real build on every run and must agree), the environment models named in the evidence, z3/cvc5. ")

CLAIMED = {
 "C01": dict(text="bounded symbolic model checking of the real MerklePatriciaTrie code (Insert/Delete/GetNodeValueRaw/Iterate over MemoryNodeDB, LevelNodeDB and PNodeDB-on-a-KV-model): concrete seed tries followed by k solver-enumerated operations with fully symbolic value bytes and trie version; after every operation error class, every lookup and the full iteration are compared with a reference map and decided by the solver for all values",
             note=TRUST+"bounds: paths <= 4 (thorough 6) nibbles over a 2-3 symbol alphabet, k<=2 ops after a seed (3 from empty), values 1-2 bytes, size limit constant shrunk to 8 by overlay; SHA3 modelled as injective; RocksDB replaced by a pure-Go KV model; outside these bounds nothing is claimed", ref="DESIGN.md §7 C01"),
 "C02": dict(text="same exploration as C01, with the root compared after every operation against an independent re-implementation of the canonical trie shape and the published node-hash format (harness/c02), under the injective-hash abstraction (root equality = byte-wise equality of all hashed encodings, decided by the solver for all value bytes and versions); plus a two-history injectivity check",
             note=TRUST+"bounds as C01 (k<=2 after seeds, k=3 from empty); SHA3 itself assumed injective; the oracle is part of the trusted base and was cross-checked against the real trie on sorted insertion", ref="DESIGN.md §7 C02"),
 "C14": dict(text="codec: one node of every kind built from symbolic fields (all value bytes, raw key bytes, origin, version are solver variables), decode(encode(n)) must have the same encoding and hash for all field values; stores: after seed+k-operation histories every entry of every store kind is keyed by the hash of its own content, round-trips, and a re-opened trie reads the reference content; the pending change set is also saved to a second store that is audited and re-opened at the saved root; a fresh trie over a layered store on top of a saved base state leaves the base consistent",
             note=TRUST+"bounds: fields <= 3-4 bytes/nibbles, keys 32 bytes, histories as C01 quick; RocksDB model", ref="DESIGN.md §7 C14"),
 "C15": dict(text="every byte string up to a length bound is fed to the state-trie decoder with all bytes symbolic (the solver covers every byte value, the explorer every separator position/length), plus structured near-valid families; for the weighted trie, every value of the CBOR target types within size bounds is fed to DeserializeNode / Deserialize / VerifyBlockProof; the assertion is: returns or errors, never panics, accepted input re-encodes",
             note=TRUST+"bounds: CreateNode inputs <= 25 bytes (thorough 29) for all tags, 33-36 bytes for branch tags, structured families beyond; wmpt: CBOR library itself is trusted (blob model) - arbitrary bytes that the CBOR decoder rejects are one trivial path; termination = instruction budget", ref="DESIGN.md §7 C15"),
 "C19": dict(text="for every leaf count n <= 24 (thorough 64) and every index the real ComputeTree/GetPathByIndex/GetPath/VerifyPath/VerifyMerklePath/SetTree are executed symbolically; the competing leaf hash is a fully symbolic byte string, so rejection is decided by the solver for every other leaf hash (through the injective-hash model); a path obtained earlier must still verify after the tree handed out another path",
             note=TRUST+"bound n <= 64, not thousands; SHA3 modelled as injective", ref="DESIGN.md §7 C19"),
 "C18": dict(text="bounded symbolic model checking of the real currency helpers: each helper is executed symbolically from go/ssa with full-width 64-bit / IEEE-double operands as solver variables; every assertion (error iff unrepresentable, result exact) is an SMT query decided unsat for all operand values on every path; loop-free code, so the only bound is the machine width",
             note=TRUST+"shopspring/decimal is replaced by an abstract (coefficient, exponent) model, so ParseZCN is checked for its own logic over an arbitrary well-formed decimal (|coeff| < 10^15, exponent -30..30) and the digit generation of decimal.NewFromFloat, ToZCN and the format-then-parse round trip are NOT claimed", ref="DESIGN.md §7 C18"),
}

import os
EXTRA = "/verif/scripts/manifest_extra.json"
if os.path.exists(EXTRA):
    CLAIMED.update(json.load(open(EXTRA)))

NA_REASON = json.load(open("/verif/scripts/not_applicable.json")) if os.path.exists("/verif/scripts/not_applicable.json") else {}

props = [json.loads(l) for l in open('/verif/properties.jsonl')]
hook_commits = []
try:
    out = subprocess.run(["git","-C","/repo","log","--format=%h %s"],capture_output=True,text=True).stdout
    hook_commits = [l.split()[0] for l in out.splitlines() if l.split(' ',1)[1].startswith("verif-hook:")]
except Exception:
    pass
checks = []
for p in props:
    pid = p["id"]
    if pid not in CLAIMED or not os.path.exists("/verif/checks/%s.json" % pid):
        continue
    c = CLAIMED[pid]
    checks.append({
        "property_id": pid, "quick_cmd": "./check %s quick" % pid, "thorough_cmd": "./check %s thorough" % pid,
        "evidence_file": "/verif/evidence/%s.json" % pid, "replay_cmd_template": "./check %s --replay {path}" % pid,
        "engine": "symgo",
        "level_claimed": {"category": c.get("category", "model_checking"), "text": c["text"], "design_ref": c["ref"]},
        "level_note": c["note"], "technique": c.get("technique", TECH)})
claimed = {c["property_id"] for c in checks}
na = [{"property_id": p["id"], "reason": NA_REASON.get(p["id"], "check not built yet in this session (work in progress; DESIGN.md §7 holds the plan)")} for p in props if p["id"] not in claimed]
man = {
 "version": 1,
 "setup_cmd": "cd /verif/symgo && GOFLAGS=-mod=mod GOPROXY=off GOSUMDB=off GOTOOLCHAIN=local go build -o ../bin/symgo ./cmd/symgo",
 "hooks": {"guard": "verif", "enable": "go build/test -tags verif (harness module /verif/harness, replace github.com/0chain/common => /repo)",
           "baseline_off_cmd": "/verif/scripts/baseline_off.sh", "source_commits": hook_commits, "add_only": True},
 "engines": [{"name": "symgo", "path": "/verif/symgo", "serves_properties": sorted(claimed),
              "kind_free_text": "symbolic executor for go/ssa (fork of x/tools ssa/interp with SMT-term scalars), decision-tree exploration by stateless re-execution over 16 worker processes, z3 4.8.12 pipe with cvc5/z3-new fallbacks, native replay of every reported model and of sampled passing paths"}],
 "checks": checks,
 "not_applicable": na,
 "notes": "exit 2 / INCONCLUSIVE is never a pass; bounds per property are echoed in each evidence file (coverage.bounds); see DESIGN.md",
}
json.dump(man, open('/verif/MANIFEST.json', 'w'), indent=1)
print("claimed:", sorted(claimed))
